package memdb

import (
	"fmt"
	"sort"
	"strings"
	"time"

	t "github.com/tinode/chat/server/store/types"
)

// userFromRow is `SELECT * FROM users` scanned into types.User (Devices are not stored here).
func userFromRow(r *userRow) t.User {
	var user t.User
	user.SetUid(r.ID)
	user.CreatedAt = r.CreatedAt
	user.UpdatedAt = r.UpdatedAt
	user.State = r.State
	user.StateAt = r.StateAt.ptr()
	user.Access = r.Access
	user.LastSeen = r.LastSeen.ptr()
	user.UserAgent = r.UserAgent
	user.Public = fromJSON(r.Public)
	user.Trusted = fromJSON(r.Trusted)
	user.Tags = tagsFromJSON(r.Tags)
	return user
}

// UserCreate creates a new user with tags. A duplicate id is a raw driver error (ErrDupEntry),
// a tag repeated in user.Tags is types.ErrDuplicate; both roll the insert back.
func (a *Adapter) UserCreate(user *t.User) error {
	return a.write("UserCreate", jUid(user.Uid())+" tags="+jStrs(user.Tags), func(st *State) error {
		uid := user.Uid()
		// INSERT INTO users(id,createdat,updatedat,state,access,public,trusted,tags)
		if st.user(uid) != nil {
			return fmt.Errorf("%w: users.PRIMARY %s", ErrDupEntry, jUid(uid))
		}
		access, err := storedAccess(user.Access)
		if err != nil {
			return err
		}
		st.users = append(st.users, userRow{
			ID: uid, CreatedAt: user.CreatedAt, UpdatedAt: user.UpdatedAt,
			State: user.State, Access: access,
			Public: toJSON(user.Public), Trusted: toJSON(user.Trusted), Tags: tagsToJSON(user.Tags),
		})
		// Save user's tags to a separate table to make user findable.
		return st.addUserTags(uid, user.Tags, false)
	})
}

// UserGet fetches a single user by user id. If the user is not found or soft-deleted it returns (nil, nil).
func (a *Adapter) UserGet(uid t.Uid) (user *t.User, err error) {
	err = a.read("UserGet", jUid(uid), func(st *State) error {
		// SELECT * FROM users WHERE id=? AND state!=StateDeleted
		if r := st.user(uid); r != nil && r.State != t.StateDeleted {
			u := userFromRow(r)
			user = &u
		}
		return nil
	})
	return
}

// UserGetAll returns the not deleted users from the list, in the order of users table.
func (a *Adapter) UserGetAll(ids ...t.Uid) (users []t.User, err error) {
	err = a.read("UserGetAll", jUids(ids), func(st *State) error {
		if len(ids) == 0 {
			// QUIRK: sqlx.In fails on an empty list, the error is dropped and an empty query is sent.
			return fmt.Errorf("%w: empty IN list", ErrBadQuery)
		}
		// SELECT * FROM users WHERE id IN (?) AND state!=StateDeleted
		users = []t.User{}
		for i := range st.users {
			r := &st.users[i]
			if r.State != t.StateDeleted && uidIn(ids, r.ID) {
				users = append(users, userFromRow(r))
			}
		}
		return nil
	})
	return
}

func uidIn(ids []t.Uid, uid t.Uid) bool {
	for _, id := range ids {
		if id == uid {
			return true
		}
	}
	return false
}

// UserDelete deletes the user: wipes completely (hard) or marks as deleted (soft).
// A missing user is not an error.
func (a *Adapter) UserDelete(uid t.Uid, hard bool) error {
	return a.write("UserDelete", fmt.Sprintf("%s hard=%v", jUid(uid), hard), func(st *State) error {
		now := t.TimeNow()

		// Topics where the user is the owner (as of the beginning: all statements below use topics.owner=?
		// and the owner column does not change before the topics are deleted/updated).
		owned := map[string]bool{}
		for i := range st.topics {
			if st.topics[i].Owner == uid {
				owned[st.topics[i].Name] = true
			}
		}

		if hard {
			// Delete user's devices (ErrNotFound = user has no devices: ignored).
			deleteWhere(&st.devices, func(d *deviceRow) bool { return d.User == uid })

			// Delete user's subscriptions in all topics.
			subsDelForUser(st, uid, true)

			// Delete records of messages soft-deleted for the user.
			deleteWhere(&st.dellog, func(d *dellogRow) bool { return d.DeletedFor == uid })

			// Can't delete user's messages in all topics: they stay, sent by a "not found" user.

			// Delete topics where the user is the owner: dellog, messages, subscriptions, tags, topics.
			// QUIRK: the joins are on topics.name=subscriptions.topic, therefore channel reader
			// subscriptions (topic 'chnXXX' of the owned 'grpXXX') are NOT deleted.
			deleteWhere(&st.dellog, func(d *dellogRow) bool { return owned[d.Topic] })
			st.deleteMessagesWhere(func(m *msgRow) bool { return owned[m.Topic] })
			deleteWhere(&st.subs, func(s *subRow) bool { return owned[s.Topic] })
			deleteWhere(&st.topicTags, func(tt *topicTagRow) bool { return owned[tt.Topic] })
			st.deleteTopicsWhere(func(tr *topicRow) bool { return tr.Owner == uid })

			// Delete user's authentication records.
			deleteWhere(&st.auth, func(r *authRow) bool { return r.User == uid })

			// Delete all credentials (ErrNotFound ignored).
			deleteWhere(&st.creds, func(c *credRow) bool { return c.User == uid })

			deleteWhere(&st.userTags, func(ut *userTagRow) bool { return ut.User == uid })

			// DELETE FROM users WHERE id=?; filemsglinks.userid is ON DELETE CASCADE.
			if deleteWhere(&st.users, func(u *userRow) bool { return u.ID == uid }) > 0 {
				deleteWhere(&st.links, func(l *linkRow) bool { return !l.User.IsZero() && l.User == uid })
			}
			return nil
		}

		// Disable all user's subscriptions. That includes p2p subscriptions. No need to delete them.
		subsDelForUser(st, uid, false)

		// Disable all subscriptions to topics where the user is the owner (already deleted ones too).
		for i := range st.subs {
			if owned[st.subs[i].Topic] {
				st.subs[i].UpdatedAt = now
				st.subs[i].DeletedAt = someTime(now)
			}
		}

		// Disable group topics where the user is the owner.
		disable := func(tr *topicRow) {
			tr.UpdatedAt = now
			tr.TouchedAt = now
			tr.State = t.StateDeleted
			tr.StateAt = someTime(now)
		}
		for i := range st.topics {
			if st.topics[i].Owner == uid {
				disable(&st.topics[i])
			}
		}

		// Disable p2p topics with the user (p2p topic's owner is 0).
		// QUIRK: the statement is "topics.owner=0 AND subscriptions.userid=?", i.e. ANY ownerless topic
		// with a subscription row of the user (deleted or not), 'sys' included.
		for i := range st.topics {
			if st.topics[i].Owner.IsZero() && st.sub(st.topics[i].Name, uid) != nil {
				disable(&st.topics[i])
			}
		}

		// Disable the other user's subscription to a disabled p2p topic
		// (self-join: every subscription of every p2p topic where the user has a subscription row).
		for i := range st.subs {
			if strings.HasPrefix(st.subs[i].Topic, "p2p") && st.sub(st.subs[i].Topic, uid) != nil {
				st.subs[i].UpdatedAt = now
				st.subs[i].DeletedAt = someTime(now)
			}
		}

		// Disable user.
		if u := st.user(uid); u != nil {
			u.UpdatedAt = now
			u.State = t.StateDeleted
			u.StateAt = someTime(now)
		}
		return nil
	})
}

// topicStateForUser is called by UserUpdate when the update contains state change.
func topicStateForUser(st *State, uid t.Uid, now time.Time, update any) error {
	state, ok := update.(t.ObjState)
	if !ok {
		return t.ErrMalformed
	}

	if now.IsZero() {
		now = t.TimeNow()
	}

	// Change state of all topics where the user is the owner.
	for i := range st.topics {
		if tr := &st.topics[i]; tr.Owner == uid && tr.State != t.StateDeleted {
			tr.State = state
			tr.StateAt = someTime(now)
		}
	}

	// Change state of p2p topics with the user (p2p topic's owner is 0).
	// QUIRK: same join as in UserDelete: any ownerless topic with a subscription row of the user.
	for i := range st.topics {
		if tr := &st.topics[i]; tr.Owner.IsZero() && tr.State != t.StateDeleted && st.sub(tr.Name, uid) != nil {
			tr.State = state
			tr.StateAt = someTime(now)
		}
	}

	// Subscriptions don't need to be updated.
	return nil
}

// setUserColumn is one `col=?` of UPDATE users.
func setUserColumn(r *userRow, key string, v any) (err error) {
	switch col := strings.ToLower(key); col {
	case "createdat":
		r.CreatedAt, err = colTime(col, v)
	case "updatedat":
		r.UpdatedAt, err = colTime(col, v)
	case "state":
		r.State, err = colState(col, v)
	case "stateat":
		r.StateAt, err = colNullTime(col, v)
	case "access":
		r.Access, err = colAccess(col, v)
	case "lastseen":
		r.LastSeen, err = colNullTime(col, v)
	case "useragent":
		r.UserAgent, err = colString(col, v)
	case "public":
		r.Public = toJSON(v)
	case "trusted":
		r.Trusted = toJSON(v)
	case "tags":
		r.Tags, err = colTags(col, v)
	default:
		err = fmt.Errorf("%w: unknown column '%s' in users", ErrBadQuery, col)
	}
	return err
}

// UserUpdate updates user record. Keys of the map are column names in any letter case.
// A missing user is not an error.
func (a *Adapter) UserUpdate(uid t.Uid, update map[string]any) error {
	return a.write("UserUpdate", jUid(uid)+" "+jMap(update), func(st *State) error {
		if len(update) == 0 {
			return fmt.Errorf("%w: empty SET list", ErrBadQuery)
		}
		r := st.user(uid)
		for _, key := range sortedKeys(update) {
			// Values are validated even if there is no row to update.
			var scratch userRow
			target := r
			if target == nil {
				target = &scratch
			}
			if err := setUserColumn(target, key, update[key]); err != nil {
				return err
			}
		}

		if state, ok := update["State"]; ok {
			now, _ := update["StateAt"].(time.Time)
			if err := topicStateForUser(st, uid, now, state); err != nil {
				return err
			}
		}

		// Tags are also stored in a separate table.
		if tags := extractTags(update); tags != nil {
			// First delete all user tags, then insert new tags.
			deleteWhere(&st.userTags, func(ut *userTagRow) bool { return ut.User == uid })
			if err := st.addUserTags(uid, tags, false); err != nil {
				return err
			}
		}
		return nil
	})
}

// UserUpdateTags adds, removes or resets user's tags, returns the resulting list.
func (a *Adapter) UserUpdateTags(uid t.Uid, add, remove, reset []string) (allTags []string, err error) {
	args := fmt.Sprintf("%s add=%s remove=%s reset=%s", jUid(uid), jStrs(add), jStrs(remove), jStrs(reset))
	err = a.write("UserUpdateTags", args, func(st *State) error {
		if reset != nil {
			// Delete all tags first if resetting.
			deleteWhere(&st.userTags, func(ut *userTagRow) bool { return ut.User == uid })
			add = reset
			remove = nil
		}

		// Now insert new tags. Ignore duplicates if not resetting.
		if err := st.addUserTags(uid, add, reset == nil); err != nil {
			return err
		}

		// Delete tags.
		if len(remove) > 0 {
			deleteWhere(&st.userTags, func(ut *userTagRow) bool { return ut.User == uid && contains(remove, ut.Tag) })
		}

		// SELECT tag FROM usertags WHERE userid=?
		var tags []string
		for i := range st.userTags {
			if st.userTags[i].User == uid {
				tags = append(tags, st.userTags[i].Tag)
			}
		}

		// UPDATE users SET tags=? WHERE id=?
		if r := st.user(uid); r != nil {
			r.Tags = tagsToJSON(t.StringSlice(tags))
		}
		allTags = tags
		return nil
	})
	if err != nil {
		allTags = nil
	}
	return
}

// UserGetByCred returns user ID for the given validated credential, ZeroUid if none.
func (a *Adapter) UserGetByCred(method, value string) (uid t.Uid, err error) {
	err = a.read("UserGetByCred", method+":"+value, func(st *State) error {
		// SELECT userid FROM credentials WHERE synthetic=? (deletedat is not checked).
		if c := st.cred(method + ":" + value); c != nil {
			uid = c.User
		}
		return nil
	})
	return
}

// UserUnreadCount returns the total number of unread messages in all topics with the R permission.
// All requested ids are always present in the result.
func (a *Adapter) UserUnreadCount(ids ...t.Uid) (counts map[t.Uid]int, err error) {
	counts = make(map[t.Uid]int, len(ids))
	for _, id := range ids {
		// Ensure all original uids are always present.
		counts[id] = 0
	}
	err = a.read("UserUnreadCount", jUids(ids), func(st *State) error {
		if len(ids) == 0 {
			return fmt.Errorf("%w: empty IN list", ErrBadQuery)
		}
		// SELECT s.userid, SUM(t.seqid)-SUM(s.readseqid) FROM topics AS t, subscriptions AS s
		// WHERE s.userid IN (?) AND t.name=s.topic AND s.deletedat IS NULL AND t.state!=StateDeleted
		// AND INSTR(s.modewant,'R')>0 AND INSTR(s.modegiven,'R')>0 GROUP BY s.userid
		// (t.name=s.topic: 'me', 'fnd' and channel 'chnXXX' subscriptions have no topic row and do not count).
		for i := range st.subs {
			s := &st.subs[i]
			if !uidIn(ids, s.User) || s.DeletedAt.Valid || !hasPerm(s.ModeWant, t.ModeRead) || !hasPerm(s.ModeGiven, t.ModeRead) {
				continue
			}
			if tr := st.topic(s.Topic); tr != nil && tr.State != t.StateDeleted {
				counts[s.User] += tr.SeqID - s.ReadSeqID
			}
		}
		return nil
	})
	return
}

// UserGetUnvalidated returns a list of uids which have never logged in, have no
// validated credentials and haven't been updated since lastUpdatedBefore.
func (a *Adapter) UserGetUnvalidated(lastUpdatedBefore time.Time, limit int) (uids []t.Uid, err error) {
	err = a.read("UserGetUnvalidated", fmt.Sprintf("limit=%d", limit), func(st *State) error {
		if limit < 0 {
			return fmt.Errorf("%w: negative LIMIT", ErrBadQuery)
		}
		// SELECT u.id, IFNULL(SUM(c.done),0) AS total FROM users AS u LEFT JOIN credentials AS c ON u.id=c.userid
		// WHERE u.lastseen IS NULL AND u.updatedat<? GROUP BY u.id, u.updatedat HAVING total=0
		// ORDER BY u.updatedat ASC LIMIT ?
		// (no filter on users.state; soft-deleted credentials count too).
		var found []*userRow
		for i := range st.users {
			u := &st.users[i]
			if u.LastSeen.Valid || !u.UpdatedAt.Before(lastUpdatedBefore) {
				continue
			}
			total := 0
			for j := range st.creds {
				if st.creds[j].User == u.ID && st.creds[j].Done {
					total++
				}
			}
			if total == 0 {
				found = append(found, u)
			}
		}
		sort.SliceStable(found, func(i, j int) bool { return found[i].UpdatedAt.Before(found[j].UpdatedAt) })
		if len(found) > limit {
			found = found[:limit]
		}
		for _, u := range found {
			uids = append(uids, u.ID)
		}
		return nil
	})
	return
}

package memdb

import (
	"fmt"
	"strings"
	"time"

	t "github.com/tinode/chat/server/store/types"
)

// ---- Devices ---------------------------------------------------------------------------------

// DeviceUpsert creates or updates a device record. A device id belongs to one user only:
// all earlier records of the device id (of any user) are deleted first.
func (a *Adapter) DeviceUpsert(uid t.Uid, def *t.DeviceDef) error {
	return a.write("DeviceUpsert", jUid(uid)+" dev="+def.DeviceId, func(st *State) error {
		// Ensure uniqueness of the device ID: delete all records of the device ID
		// (mysql: by the 64-bit hash of the device id).
		deleteWhere(&st.devices, func(d *deviceRow) bool { return d.DeviceID == def.DeviceId })

		// Actually add/update DeviceId for the new user.
		if st.user(uid) == nil {
			return fmt.Errorf("%w: devices.userid -> users.id", ErrForeignKey)
		}
		st.nextDevice++
		st.devices = append(st.devices, deviceRow{ID: st.nextDevice, User: uid, DeviceID: def.DeviceId,
			Platform: def.Platform, LastSeen: def.LastSeen, Lang: def.Lang})
		return nil
	})
}

// DeviceGetAll returns all devices for a given set of users and the total number of devices.
func (a *Adapter) DeviceGetAll(uids ...t.Uid) (result map[t.Uid][]t.DeviceDef, count int, err error) {
	err = a.read("DeviceGetAll", jUids(uids), func(st *State) error {
		if len(uids) == 0 {
			return fmt.Errorf("%w: empty IN list", ErrBadQuery)
		}
		result = make(map[t.Uid][]t.DeviceDef)
		for i := range st.devices {
			d := &st.devices[i]
			if uidIn(uids, d.User) {
				result[d.User] = append(result[d.User], t.DeviceDef{
					DeviceId: d.DeviceID, Platform: d.Platform, LastSeen: d.LastSeen, Lang: d.Lang})
				count++
			}
		}
		return nil
	})
	return
}

// DeviceDelete deletes a device record of the user or, if deviceID is empty, all devices of the user.
// ErrNotFound if nothing was deleted.
func (a *Adapter) DeviceDelete(uid t.Uid, deviceID string) error {
	return a.write("DeviceDelete", jUid(uid)+" dev="+deviceID, func(st *State) error {
		n := deleteWhere(&st.devices, func(d *deviceRow) bool {
			return d.User == uid && (deviceID == "" || d.DeviceID == deviceID)
		})
		if n == 0 {
			return t.ErrNotFound
		}
		return nil
	})
}

// ---- File uploads ------------------------------------------------------------------------------

func fileFromRow(r *fileRow) t.FileDef {
	var fd t.FileDef
	fd.SetUid(r.ID)
	fd.CreatedAt = r.CreatedAt
	fd.UpdatedAt = r.UpdatedAt
	fd.User = r.User.String()
	fd.Status = r.Status
	fd.MimeType = r.MimeType
	fd.Size = r.Size
	fd.Location = r.Location
	return fd
}

// FileStartUpload initializes a file upload. A duplicate id is a raw driver error.
func (a *Adapter) FileStartUpload(fd *t.FileDef) error {
	return a.write("FileStartUpload", fd.Id+" user="+jUidStr(fd.User), func(st *State) error {
		if st.file(fd.Uid()) != nil {
			return fmt.Errorf("%w: fileuploads.PRIMARY %s", ErrDupEntry, fd.Id)
		}
		st.files = append(st.files, fileRow{ID: fd.Uid(), CreatedAt: fd.CreatedAt, UpdatedAt: fd.UpdatedAt,
			User: t.ParseUid(fd.User), Status: fd.Status, MimeType: fd.MimeType, Size: fd.Size, Location: fd.Location})
		return nil
	})
}

// FileFinishUpload marks file upload as completed, successfully or otherwise.
// On success the record gets the status, size and a new updatedat; on failure the record is deleted.
// Like mysql, it updates and returns the caller's fd.
func (a *Adapter) FileFinishUpload(fd *t.FileDef, success bool, size int64) (res *t.FileDef, err error) {
	args := fmt.Sprintf("%s success=%v size=%d", fd.Id, success, size)
	err = a.write("FileFinishUpload", args, func(st *State) error {
		now := t.TimeNow()
		if success {
			// UPDATE fileuploads SET updatedat=?,status=?,size=? WHERE id=?
			if r := st.file(fd.Uid()); r != nil {
				r.UpdatedAt = now
				r.Status = t.UploadCompleted
				r.Size = size
			}
			fd.Status = t.UploadCompleted
			fd.Size = size
		} else {
			// Deleting the record: there is no value in keeping it in the DB. Links cascade.
			id := fd.Uid()
			if deleteWhere(&st.files, func(r *fileRow) bool { return r.ID == id }) > 0 {
				deleteWhere(&st.links, func(l *linkRow) bool { return l.File == id })
			}
			fd.Status = t.UploadFailed
			fd.Size = 0
		}
		fd.UpdatedAt = now
		res = fd
		return nil
	})
	return
}

// FileGet fetches a record of a specific file: (nil, nil) if not found, ErrMalformed for a bad id.
func (a *Adapter) FileGet(fid string) (fd *t.FileDef, err error) {
	err = a.read("FileGet", fid, func(st *State) error {
		id := t.ParseUid(fid)
		if id.IsZero() {
			return t.ErrMalformed
		}
		if r := st.file(id); r != nil {
			found := fileFromRow(r)
			fd = &found
		}
		return nil
	})
	return
}

// FileDeleteUnused deletes records of files without links (to a message, topic or user) and, if
// olderThan is not zero, with updatedat before olderThan; at most `limit` records if limit is positive.
// Returns the non-empty locations of the deleted records.
func (a *Adapter) FileDeleteUnused(olderThan time.Time, limit int) (locations []string, err error) {
	args := fmt.Sprintf("limit=%d", limit)
	if !olderThan.IsZero() {
		args = "older " + args
	}
	err = a.write("FileDeleteUnused", args, func(st *State) error {
		// SELECT fu.id,fu.location FROM fileuploads AS fu LEFT JOIN filemsglinks AS fml ON fml.fileid=fu.id
		// WHERE fml.id IS NULL [AND fu.updatedat<?] [LIMIT ?]
		ids := map[t.Uid]bool{}
		for i := range st.files {
			r := &st.files[i]
			linked := false
			for j := range st.links {
				if st.links[j].File == r.ID {
					linked = true
					break
				}
			}
			if linked || (!olderThan.IsZero() && !r.UpdatedAt.Before(olderThan)) {
				continue
			}
			if limit > 0 && len(ids) >= limit {
				break
			}
			if r.Location != "" {
				locations = append(locations, r.Location)
			}
			ids[r.ID] = true
		}

		if len(ids) > 0 {
			deleteWhere(&st.files, func(r *fileRow) bool { return ids[r.ID] })
		}
		return nil
	})
	if err != nil {
		locations = nil
	}
	return
}

// FileLinkAttachments connects given topic or message to the file record IDs from the list.
// A message gets all files; a topic or a user (avatar) gets only the first one and loses earlier links.
func (a *Adapter) FileLinkAttachments(topic string, userId, msgId t.Uid, fids []string) error {
	args := fmt.Sprintf("topic=%s user=%s msg=%d fids=%s", topic, jUid(userId), uint64(msgId), jStrs(fids))
	return a.write("FileLinkAttachments", args, func(st *State) error {
		if len(fids) == 0 || (topic == "" && msgId.IsZero() && userId.IsZero()) {
			return t.ErrMalformed
		}
		now := t.TimeNow()

		var link linkRow
		if !msgId.IsZero() {
			link.MsgID = int(msgId)
		} else if topic != "" {
			link.Topic = topic
			// Only one attachment per topic is permitted at this time.
			fids = fids[0:1]
		} else {
			link.User = userId
			// Only one attachment per user is permitted at this time.
			fids = fids[0:1]
		}

		// Decoded ids.
		var dids []t.Uid
		for _, fid := range fids {
			id := t.ParseUid(fid)
			if id.IsZero() {
				return t.ErrMalformed
			}
			dids = append(dids, id)
		}

		// Unlink earlier uploads on the same topic or user allowing them to be garbage-collected.
		if msgId.IsZero() {
			deleteWhere(&st.links, func(l *linkRow) bool {
				if link.Topic != "" {
					return l.Topic == link.Topic
				}
				return !l.User.IsZero() && l.User == link.User
			})
		}

		// INSERT INTO filemsglinks(createdat,fileid,[msgid|topic|userid]) VALUES (?,?,?),...
		for _, id := range dids {
			switch {
			case st.file(id) == nil:
				return fmt.Errorf("%w: filemsglinks.fileid -> fileuploads.id", ErrForeignKey)
			case link.MsgID != 0 && st.message(link.MsgID) == nil:
				return fmt.Errorf("%w: filemsglinks.msgid -> messages.id", ErrForeignKey)
			case link.Topic != "" && st.topic(link.Topic) == nil:
				return fmt.Errorf("%w: filemsglinks.topic -> topics.name", ErrForeignKey)
			case !link.User.IsZero() && st.user(link.User) == nil:
				return fmt.Errorf("%w: filemsglinks.userid -> users.id", ErrForeignKey)
			}
			st.nextLink++
			row := link
			row.ID = st.nextLink
			row.CreatedAt = now
			row.File = id
			st.links = append(st.links, row)
		}
		return nil
	})
}

// ---- Persistent cache -----------------------------------------------------------------------------

// PCacheGet reads a persistent cache entry: ErrNotFound if missing.
func (a *Adapter) PCacheGet(key string) (value string, err error) {
	err = a.read("PCacheGet", key, func(st *State) error {
		for i := range st.kv {
			if st.kv[i].Key == key {
				value = st.kv[i].Value
				return nil
			}
		}
		return t.ErrNotFound
	})
	return
}

// PCacheUpsert creates or updates a persistent cache entry.
// With failOnDuplicate an existing key is ErrDuplicate, otherwise the entry is replaced (new createdat).
func (a *Adapter) PCacheUpsert(key string, value string, failOnDuplicate bool) error {
	args := fmt.Sprintf("%s value=%q failOnDuplicate=%v", key, value, failOnDuplicate)
	return a.write("PCacheUpsert", args, func(st *State) error {
		if strings.Contains(key, "%") {
			// Do not allow % in keys: it interferes with LIKE query.
			return t.ErrMalformed
		}
		now := t.TimeNow()
		for i := range st.kv {
			if st.kv[i].Key == key {
				if failOnDuplicate {
					// INSERT
					return t.ErrDuplicate
				}
				// REPLACE = DELETE + INSERT: the entry moves to the end.
				deleteWhere(&st.kv, func(r *kvRow) bool { return r.Key == key })
				break
			}
		}
		st.kv = append(st.kv, kvRow{Key: key, CreatedAt: now, Value: value})
		return nil
	})
}

// PCacheDelete deletes one persistent cache entry. A missing entry is not an error.
func (a *Adapter) PCacheDelete(key string) error {
	return a.write("PCacheDelete", key, func(st *State) error {
		deleteWhere(&st.kv, func(r *kvRow) bool { return r.Key == key })
		return nil
	})
}

// PCacheExpire expires old entries with the given key prefix.
func (a *Adapter) PCacheExpire(keyPrefix string, olderThan time.Time) error {
	return a.write("PCacheExpire", keyPrefix, func(st *State) error {
		if keyPrefix == "" {
			return t.ErrMalformed
		}
		// DELETE FROM kvmeta WHERE `key` LIKE ? AND createdat<?
		deleteWhere(&st.kv, func(r *kvRow) bool {
			return likePrefix(r.Key, keyPrefix) && r.CreatedAt.Before(olderThan)
		})
		return nil
	})
}

package memdb

import (
	"errors"
	"fmt"
	"sort"
	"strings"

	t "github.com/tinode/chat/server/store/types"
)

// tagQuery is the common part of FindUsers and FindTopics:
//
//	SELECT ..., COUNT(*) AS matches FROM <objects> LEFT JOIN <tags> ON ...
//	WHERE [state=StateOK AND] tag IN (all required + optional tags)
//	GROUP BY <object> HAVING COUNT(tag IN (group1) OR NULL)>=1 AND COUNT(tag IN (group2) OR NULL)>=1 ...
//	ORDER BY matches DESC LIMIT maxResults
type tagQuery struct {
	req    [][]string
	allReq []string
	index  map[string]struct{} // all tags of the query
}

func newTagQuery(req [][]string, opt []string) (*tagQuery, error) {
	q := &tagQuery{req: req, allReq: t.FlattenDoubleSlice(req), index: map[string]struct{}{}}
	for _, tag := range q.allReq {
		q.index[tag] = struct{}{}
	}
	for _, tag := range opt {
		q.index[tag] = struct{}{}
	}
	if len(q.allReq)+len(opt) == 0 {
		// mysql adapter panics here: strings.Repeat with a negative count.
		return nil, errors.New("memdb: search without tags (mysql adapter panics)")
	}
	return q, nil
}

// matches evaluates WHERE + HAVING for the tag rows of one object.
// Returns the value of COUNT(*) (0 = not selected).
func (q *tagQuery) matches(tags []string) int {
	// WHERE tag IN (...)
	var hit []string
	for _, tag := range tags {
		if _, ok := q.index[tag]; ok {
			hit = append(hit, tag)
		}
	}
	if len(hit) == 0 {
		return 0
	}
	// HAVING: at least one of the tags of every non-empty required group must be present.
	for _, group := range q.req {
		if len(group) == 0 {
			continue
		}
		n := 0
		for _, tag := range hit {
			if contains(group, tag) {
				n++
			}
		}
		if n < 1 {
			return 0
		}
	}
	return len(hit)
}

// foundTags lists the denormalized tags of the object which are mentioned in the query.
func (q *tagQuery) foundTags(objTags t.StringSlice) []string {
	found := make([]string, 0, 1)
	for _, tag := range objTags {
		if _, ok := q.index[tag]; ok {
			found = append(found, tag)
		}
	}
	return found
}

func jSearch(req [][]string, opt []string, activeOnly bool) string {
	groups := make([]string, len(req))
	for i, g := range req {
		groups[i] = jStrs(g)
	}
	return fmt.Sprintf("req=[%s] opt=%s activeOnly=%v", strings.Join(groups, ","), jStrs(opt), activeOnly)
}

// FindUsers returns a list of users who match given tags, such as "email:jdoe@example.com" or "tel:+18003287448",
// most matches first. The found tags are in Private.
func (a *Adapter) FindUsers(uid t.Uid, req [][]string, opt []string, activeOnly bool) (subs []t.Subscription, err error) {
	err = a.read("FindUsers", jUid(uid)+" "+jSearch(req, opt, activeOnly), func(st *State) error {
		q, err := newTagQuery(req, opt)
		if err != nil {
			return err
		}

		type match struct {
			user    *userRow
			matches int
		}
		var found []match
		for i := range st.users {
			u := &st.users[i]
			if activeOnly && u.State != t.StateOK {
				continue
			}
			var tags []string
			for j := range st.userTags {
				if st.userTags[j].User == u.ID {
					tags = append(tags, st.userTags[j].Tag)
				}
			}
			if n := q.matches(tags); n > 0 {
				found = append(found, match{u, n})
			}
		}
		// ORDER BY matches DESC LIMIT ?
		sort.SliceStable(found, func(i, j int) bool { return found[i].matches > found[j].matches })
		if len(found) > a.maxResults {
			found = found[:a.maxResults]
		}

		for _, m := range found {
			if m.user.ID == uid {
				// Skip the callee (after the LIMIT).
				continue
			}
			var sub t.Subscription
			sub.CreatedAt = m.user.CreatedAt
			sub.UpdatedAt = m.user.UpdatedAt
			sub.User = m.user.ID.String()
			sub.SetPublic(fromJSON(m.user.Public))
			sub.SetTrusted(fromJSON(m.user.Trusted))
			sub.SetDefaultAccess(m.user.Access.Auth, m.user.Access.Anon)
			sub.Private = q.foundTags(tagsFromJSON(m.user.Tags))
			subs = append(subs, sub)
		}
		return nil
	})
	return
}

// FindTopics returns a list of topics with matching tags, most matches first.
// Channels are reported under their 'chn' name. The found tags are in Private.
func (a *Adapter) FindTopics(req [][]string, opt []string, activeOnly bool) (subs []t.Subscription, err error) {
	err = a.read("FindTopics", jSearch(req, opt, activeOnly), func(st *State) error {
		q, err := newTagQuery(req, opt)
		if err != nil {
			return err
		}

		type match struct {
			topic   *topicRow
			matches int
		}
		var found []match
		for i := range st.topics {
			tr := &st.topics[i]
			if activeOnly && tr.State != t.StateOK {
				continue
			}
			var tags []string
			for j := range st.topicTags {
				if st.topicTags[j].Topic == tr.Name {
					tags = append(tags, st.topicTags[j].Tag)
				}
			}
			if n := q.matches(tags); n > 0 {
				found = append(found, match{tr, n})
			}
		}
		// ORDER BY matches DESC LIMIT ?
		sort.SliceStable(found, func(i, j int) bool { return found[i].matches > found[j].matches })
		if len(found) > a.maxResults {
			found = found[:a.maxResults]
		}

		for _, m := range found {
			var sub t.Subscription
			sub.Topic = m.topic.Name
			sub.CreatedAt = m.topic.CreatedAt
			sub.UpdatedAt = m.topic.UpdatedAt
			if m.topic.UseBt {
				sub.Topic = t.GrpToChn(sub.Topic)
			}
			sub.SetPublic(fromJSON(m.topic.Public))
			sub.SetTrusted(fromJSON(m.topic.Trusted))
			sub.SetDefaultAccess(m.topic.Access.Auth, m.topic.Access.Anon)
			sub.Private = q.foundTags(tagsFromJSON(m.topic.Tags))
			subs = append(subs, sub)
		}
		return nil
	})
	return
}

package memdb

import (
	"fmt"
	"sort"

	t "github.com/tinode/chat/server/store/types"
)

const maxInt32 = 1<<31 - 1

// MessageSave saves message to database. The id given by the store is replaced with the
// AUTO_INCREMENT id of the row. (topic, seqid) must be unique and the topic row must exist:
// both failures are raw driver errors (ErrDupEntry, ErrForeignKey).
func (a *Adapter) MessageSave(msg *t.Message) error {
	args := fmt.Sprintf("%s seq=%d from=%s", msg.Topic, msg.SeqId, jUidStr(msg.From))
	return a.write("MessageSave", args, func(st *State) error {
		// INSERT INTO messages(createdAt,updatedAt,seqid,topic,`from`,head,content)
		for i := range st.messages {
			if st.messages[i].Topic == msg.Topic && st.messages[i].SeqID == msg.SeqId {
				return fmt.Errorf("%w: messages.messages_topic_seqid %s-%d", ErrDupEntry, msg.Topic, msg.SeqId)
			}
		}
		if st.topic(msg.Topic) == nil {
			return fmt.Errorf("%w: messages.topic -> topics.name (%s)", ErrForeignKey, msg.Topic)
		}
		st.nextMsg++
		st.messages = append(st.messages, msgRow{
			ID: st.nextMsg, CreatedAt: msg.CreatedAt, UpdatedAt: msg.UpdatedAt, SeqID: msg.SeqId,
			Topic: msg.Topic, From: t.ParseUid(msg.From), Head: headToJSON(msg.Head), Content: toJSON(msg.Content),
		})
		// Replacing ID given by store by ID given by the DB.
		msg.SetUid(t.Uid(st.nextMsg))
		return nil
	})
}

// MessageGetAll returns not deleted messages of the topic with seqid in [Since, Before), newest first.
// Messages soft-deleted for forUser are excluded. Zero Since/Before mean no bound; the limit is
// 100 (mysql's maxMessageResults) unless opts.Limit is positive and smaller.
func (a *Adapter) MessageGetAll(topic string, forUser t.Uid, opts *t.QueryOpt) (msgs []t.Message, err error) {
	args := fmt.Sprintf("%s for=%s %s", topic, jUid(forUser), jOpts(opts))
	err = a.read("MessageGetAll", args, func(st *State) error {
		var limit = a.maxMessageResults
		var lower = 0
		var upper = maxInt32

		if opts != nil {
			if opts.Since > 0 {
				lower = opts.Since
			}
			if opts.Before > 0 {
				// MySQL BETWEEN is inclusive-inclusive, Tinode API requires inclusive-exclusive, thus -1
				upper = opts.Before - 1
			}

			if opts.Limit > 0 && opts.Limit < limit {
				limit = opts.Limit
			}
		}

		// SELECT ... FROM messages AS m LEFT JOIN dellog AS d
		//   ON d.topic=m.topic AND m.seqid BETWEEN d.low AND d.hi-1 AND d.deletedfor=?
		// WHERE m.delid=0 AND m.topic=? AND m.seqid BETWEEN ? AND ? AND d.deletedfor IS NULL
		// ORDER BY m.seqid DESC LIMIT ?
		var found []*msgRow
		for i := range st.messages {
			m := &st.messages[i]
			if m.DelID != 0 || m.Topic != topic || m.SeqID < lower || m.SeqID > upper {
				continue
			}
			deleted := false
			for j := range st.dellog {
				d := &st.dellog[j]
				if d.Topic == m.Topic && d.DeletedFor == forUser && d.Low <= m.SeqID && m.SeqID <= d.Hi-1 {
					deleted = true
					break
				}
			}
			if !deleted {
				found = append(found, m)
			}
		}
		sort.SliceStable(found, func(i, j int) bool { return found[i].SeqID > found[j].SeqID })
		if len(found) > limit {
			found = found[:limit]
		}

		msgs = make([]t.Message, 0, len(found))
		for _, m := range found {
			msgs = append(msgs, messageFromRow(m))
		}
		return nil
	})
	return
}

// messageFromRow is the SELECT of MessageGetAll: the id of the message is not loaded.
func messageFromRow(m *msgRow) t.Message {
	var msg t.Message
	msg.CreatedAt = m.CreatedAt
	msg.UpdatedAt = m.UpdatedAt
	msg.DeletedAt = m.DeletedAt.ptr()
	msg.DelId = m.DelID
	msg.SeqId = m.SeqID
	msg.Topic = m.Topic
	msg.From = m.From.String()
	msg.Head = headFromJSON(m.Head)
	msg.Content = fromJSON(m.Content)
	return msg
}

// MessageGetDeleted returns ranges of deleted messages: dellog rows of the topic with delid in
// [Since, Before), deleted for everybody or for forUser, ordered by delid, consecutive rows of the same
// delid grouped into one DelMessage. The limit counts dellog rows, not groups.
func (a *Adapter) MessageGetDeleted(topic string, forUser t.Uid, opts *t.QueryOpt) (dmsgs []t.DelMessage, err error) {
	args := fmt.Sprintf("%s for=%s %s", topic, jUid(forUser), jOpts(opts))
	err = a.read("MessageGetDeleted", args, func(st *State) error {
		var limit = a.maxResults
		var lower = 0
		var upper = maxInt32

		if opts != nil {
			if opts.Since > 0 {
				lower = opts.Since
			}
			if opts.Before > 1 {
				// DelRange is inclusive-exclusive, while BETWEEN is inclusive-inclisive.
				upper = opts.Before - 1
			}

			if opts.Limit > 0 && opts.Limit < limit {
				limit = opts.Limit
			}
		}

		// SELECT topic,deletedfor,delid,low,hi FROM dellog WHERE topic=? AND delid BETWEEN ? AND ?
		// AND (deletedFor=0 OR deletedFor=?) ORDER BY delid LIMIT ?
		var rows []dellogRow
		for i := range st.dellog {
			d := st.dellog[i]
			if d.Topic == topic && lower <= d.DelID && d.DelID <= upper && (d.DeletedFor.IsZero() || d.DeletedFor == forUser) {
				rows = append(rows, d)
			}
		}
		sort.SliceStable(rows, func(i, j int) bool { return rows[i].DelID < rows[j].DelID })
		if len(rows) > limit {
			rows = rows[:limit]
		}

		// QUIRK: grouping is by delid alone: rows with delid=0 are never reported, a soft-delete row and
		// a hard-delete row with the same delid end up in one DelMessage under the DeletedFor of the first.
		var dmsg t.DelMessage
		for _, dellog := range rows {
			if dellog.DelID != dmsg.DelId {
				if dmsg.DelId > 0 {
					dmsgs = append(dmsgs, dmsg)
				}
				dmsg.DelId = dellog.DelID
				dmsg.Topic = dellog.Topic
				if !dellog.DeletedFor.IsZero() {
					dmsg.DeletedFor = dellog.DeletedFor.String()
				} else {
					dmsg.DeletedFor = ""
				}
				dmsg.SeqIdRanges = nil
			}
			if dellog.Hi <= dellog.Low+1 {
				dellog.Hi = 0
			}
			dmsg.SeqIdRanges = append(dmsg.SeqIdRanges, t.Range{Low: dellog.Low, Hi: dellog.Hi})
		}
		if dmsg.DelId > 0 {
			dmsgs = append(dmsgs, dmsg)
		}
		return nil
	})
	return
}

// messageDeleteAll is messageDeleteList(tx, topic, nil): the whole topic is being deleted.
func messageDeleteAll(st *State, topic string) {
	deleteWhere(&st.dellog, func(d *dellogRow) bool { return d.Topic == topic })
	// filemsglinks will be deleted because of ON DELETE CASCADE
	st.deleteMessagesWhere(func(m *msgRow) bool { return m.Topic == topic })
}

// MessageDeleteList deletes messages in the given topic.
// toDel == nil: delete all messages and the deletion log of the topic.
// Otherwise dellog rows [Low, Hi) are added for every range (Hi==0 means the single id Low) and, if
// toDel.DeletedFor is empty (hard delete), the not yet deleted messages in the ranges lose their
// attachment links, head and content and are marked with deletedat and delid.
func (a *Adapter) MessageDeleteList(topic string, toDel *t.DelMessage) error {
	args := topic + " all"
	if toDel != nil {
		args = fmt.Sprintf("%s delid=%d for=%s ranges=%s", topic, toDel.DelId, jUidStr(toDel.DeletedFor), jRanges(toDel.SeqIdRanges))
	}
	return a.write("MessageDeleteList", args, func(st *State) error {
		if toDel == nil {
			messageDeleteAll(st, topic)
			return nil
		}

		// Only some messages are being deleted.
		// Start with making log entries.
		forUser := t.ParseUid(toDel.DeletedFor)
		for _, rng := range toDel.SeqIdRanges {
			if rng.Hi == 0 {
				// Dellog must contain valid Low and *Hi*.
				rng.Hi = rng.Low + 1
			}
			if st.topic(topic) == nil {
				return fmt.Errorf("%w: dellog.topic -> topics.name (%s)", ErrForeignKey, topic)
			}
			st.nextDellog++
			st.dellog = append(st.dellog, dellogRow{ID: st.nextDellog, Topic: topic, DeletedFor: forUser,
				DelID: toDel.DelId, Low: rng.Low, Hi: rng.Hi})
		}

		if toDel.DeletedFor == "" {
			// Hard-deleting messages requires updates to the messages table.
			if len(toDel.SeqIdRanges) == 0 {
				// mysql adapter panics here: index out of range.
				return fmt.Errorf("%w: hard delete without ranges (mysql adapter panics)", ErrBadQuery)
			}
			inRanges := func(seq int) bool {
				for _, r := range toDel.SeqIdRanges {
					if (r.Hi == 0 && seq == r.Low) || (r.Low <= seq && seq < r.Hi) {
						return true
					}
				}
				return false
			}
			// WHERE m.topic=? AND m.seqid IN (...) AND m.deletedAt IS NULL
			now := t.TimeNow()
			for i := range st.messages {
				m := &st.messages[i]
				if m.Topic != topic || !inRanges(m.SeqID) || m.DeletedAt.Valid {
					continue
				}
				// DELETE fml.* FROM filemsglinks AS fml INNER JOIN messages AS m ON m.id=fml.msgid
				id := m.ID
				deleteWhere(&st.links, func(l *linkRow) bool { return l.MsgID == id })
				// UPDATE messages AS m SET m.deletedAt=?,m.delId=?,m.head=NULL,m.content=NULL
				m.DeletedAt = someTime(now)
				m.DelID = toDel.DelId
				m.Head = nil
				m.Content = nil
			}
		}
		return nil
	})
}

// Package vexpvar replaces expvar in instrumented builds: Publish tolerates re-registration so
// that the real newHub()/NewSessionStore() can run once per explored execution.
package vexpvar

import (
	"expvar"
	"net/http"
	"sync"
)

type (
	Var    = expvar.Var
	Int    = expvar.Int
	Float  = expvar.Float
	String = expvar.String
	Func   = expvar.Func
	Map    = expvar.Map
)

var (
	mu   sync.Mutex
	vars = map[string]Var{}
)

func Publish(name string, v Var) {
	mu.Lock()
	vars[name] = v
	mu.Unlock()
}

func Get(name string) Var {
	mu.Lock()
	defer mu.Unlock()
	return vars[name]
}

func Handler() http.Handler { return expvar.Handler() }
func NewInt(name string) *Int {
	v := new(Int)
	Publish(name, v)
	return v
}

package vsched

import (
	"fmt"
	"time"
)

// prefixStrategy replays a recorded prefix of picks and then takes alternative 0 everywhere.
type prefixStrategy struct{ picks []int }

func (p *prefixStrategy) Choose(point int, kind byte, n int) int {
	if point < len(p.picks) {
		return p.picks[point]
	}
	return 0
}

// ExploreCfg bounds a stateless depth-first exploration of the choice tree.
type ExploreCfg struct {
	Bound    int // maximal number of deviations (non-default picks inside the open zone)
	MaxExec  int64
	Deadline time.Time
	Shard    int
	Shards   int
	Exec     Config // per-execution configuration (Strategy is overwritten)
}

// ExploreStats reports what was covered.
type ExploreStats struct {
	Executions     int64
	BoundCompleted int // highest bound whose tree was exhausted (-1 = not even bound 0)
	Exhaustive     bool
	Capped         string
	MaxOpenPoints  int
	Failure        string // machinery failure (nondeterminism, replay divergence)
	PerBound       []int64
}

// Picks extracts the pick list of an execution.
func Picks(cs []Choice) []int {
	out := make([]int, len(cs))
	for i, c := range cs {
		out[i] = c.Pick
	}
	return out
}

// Explore enumerates every execution of body with at most cfg.Bound deviations, bound by bound
// (iterative deviation bounding). observe is called exactly once per distinct execution, right
// after it ran (the harness reads its own captured state); it returns a canonical observation
// string (used for the determinism check) and false to stop the exploration.
func Explore(cfg ExploreCfg, body func(), observe func(res Result, picks []int, deviations int) (string, bool)) ExploreStats {
	st := ExploreStats{BoundCompleted: -1, Exhaustive: true}
	if cfg.Shards <= 0 {
		cfg.Shards = 1
	}
	run := func(prefix []int) Result {
		ec := cfg.Exec
		ec.Strategy = &prefixStrategy{picks: prefix}
		st.Executions++
		return Run(ec, body)
	}
	stop := false
	capped := func() bool {
		if stop {
			return true
		}
		if cfg.MaxExec > 0 && st.Executions >= cfg.MaxExec {
			st.Capped = fmt.Sprintf("max executions %d", cfg.MaxExec)
			return true
		}
		if !cfg.Deadline.IsZero() && time.Now().After(cfg.Deadline) {
			st.Capped = "deadline"
			return true
		}
		return false
	}

	// root, twice: determinism
	root := run(nil)
	obs1, cont := observe(root, Picks(root.Choices), 0)
	root2 := run(nil)
	obs2, _ := observe(root2, Picks(root2.Choices), 0)
	if obs1 != obs2 || len(root.Choices) != len(root2.Choices) {
		st.Failure = fmt.Sprintf("NONDETERMINISM: the default schedule gave two different observations\n--- first (%d choices)\n%s\n--- second (%d choices)\n%s",
			len(root.Choices), obs1, len(root2.Choices), obs2)
		st.Exhaustive = false
		return st
	}
	st.PerBound = append(st.PerBound, 1)
	if !cont {
		st.Exhaustive = false
		st.Capped = "stopped by harness"
		return st
	}
	st.BoundCompleted = 0

	// dfs visits executions with exactly `target` deviations, re-running shallower ones as inner nodes.
	var dfs func(res Result, depth, target int, top bool, topCounter *int) bool
	dfs = func(res Result, depth, target int, top bool, topCounter *int) bool {
		picks := Picks(res.Choices)
		open := 0
		// children may only deviate at points after the last deviation of this node
		start := 0
		for i := len(picks) - 1; i >= 0; i-- {
			if picks[i] != 0 && res.Choices[i].Open {
				start = i + 1
				break
			}
		}
		for i := start; i < len(res.Choices); i++ {
			c := res.Choices[i]
			if !c.Open {
				continue
			}
			open++
			for alt := 1; alt < c.N; alt++ {
				if top {
					idx := *topCounter
					*topCounter++
					if idx%cfg.Shards != cfg.Shard {
						continue
					}
				}
				if capped() {
					return false
				}
				np := append(append([]int{}, picks[:i]...), alt)
				child := run(np)
				if child.Status == "abort" && len(child.Detail) > 6 && child.Detail[:6] == "REPLAY" {
					st.Failure = child.Detail
					return false
				}
				if depth+1 == target {
					if len(st.PerBound) <= target {
						st.PerBound = append(st.PerBound, make([]int64, target+1-len(st.PerBound))...)
					}
					st.PerBound[target]++
					if _, cont := observe(child, Picks(child.Choices), target); !cont {
						stop = true
						st.Capped = "stopped by harness"
						return false
					}
				} else if !dfs(child, depth+1, target, false, nil) {
					return false
				}
			}
		}
		if open > st.MaxOpenPoints {
			st.MaxOpenPoints = open
		}
		return true
	}
	for b := 1; b <= cfg.Bound; b++ {
		ctr := 0
		if !dfs(root, 0, b, true, &ctr) {
			st.Exhaustive = false
			return st
		}
		st.BoundCompleted = b
	}
	return st
}

// Replay runs body once along the given picks with tracing enabled.
func Replay(exec Config, picks []int, body func()) Result {
	exec.Strategy = &prefixStrategy{picks: picks}
	exec.Trace = true
	return Run(exec, body)
}

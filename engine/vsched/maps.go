package vsched

import (
	"fmt"
	"iter"
	"reflect"
	"sort"
)

// KeyOrder lets the harness give pointer-typed map keys (e.g. *Session) a deterministic order.
var KeyOrder func(k any) (string, bool)

// MapDescending reverses the iteration order (a harness knob: the two extreme orders).
var MapDescending bool

func keyString(k any) string {
	if KeyOrder != nil {
		if s, ok := KeyOrder(k); ok {
			return s
		}
	}
	v := reflect.ValueOf(k)
	switch v.Kind() {
	case reflect.String:
		return "s" + v.String()
	case reflect.Int, reflect.Int8, reflect.Int16, reflect.Int32, reflect.Int64:
		return fmt.Sprintf("i%020d", uint64(v.Int())+1<<63)
	case reflect.Uint, reflect.Uint8, reflect.Uint16, reflect.Uint32, reflect.Uint64, reflect.Uintptr:
		return fmt.Sprintf("u%020d", v.Uint())
	}
	return fmt.Sprintf("x%v", k)
}

// SortedMap iterates a map in a deterministic (sorted key) order, with Go's semantics for
// entries deleted during the iteration. Outside Run it still sorts (harmless).
func SortedMap[K comparable, V any](m map[K]V) iter.Seq2[K, V] {
	return func(yield func(K, V) bool) {
		if len(m) == 0 {
			return
		}
		type kv struct {
			k K
			s string
		}
		keys := make([]kv, 0, len(m))
		for k := range m {
			keys = append(keys, kv{k, keyString(k)})
		}
		sort.Slice(keys, func(i, j int) bool {
			if MapDescending {
				return keys[i].s > keys[j].s
			}
			return keys[i].s < keys[j].s
		})
		for _, e := range keys {
			v, ok := m[e.k]
			if !ok {
				continue
			}
			if !yield(e.k, v) {
				return
			}
		}
	}
}

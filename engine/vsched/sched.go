// Package vsched is a cooperative deterministic scheduler for goroutines whose concurrency
// operations were rewritten by verif-instr. Exactly one managed goroutine runs at any instant;
// every channel/select/lock/wait/spawn operation is a scheduling point at which the *strategy*
// decides who runs next. Outside Run() every operation falls back to its native meaning.
package vsched

import (
	"fmt"
	"reflect"
	"runtime"
	"runtime/debug"
	"sort"
	"strings"
	"sync"
	"time"
)

// ---------------------------------------------------------------------------------------------
// public types

// Choice is one recorded decision.
type Choice struct {
	Kind byte // 'g' goroutine, 's' select case, 'c' harness Choose
	N    int  // number of alternatives
	Pick int
	Open bool // inside the exploration zone (alternatives may be explored)
	Note string
}

// Strategy decides choice points; point is the index of the choice in this execution.
type Strategy interface {
	Choose(point int, kind byte, n int) int
}

// Result of one execution.
type Result struct {
	Status  string // "ok", "deadlock", "panic", "horizon", "abort"
	Detail  string
	Choices []Choice
	Steps   int
	Trace   []string // optional step trace (when Config.Trace)
	Lockset []string // "Type.field (read|write) at file:line" touched without the lock (see Touch)
}

// Config of one execution.
type Config struct {
	Strategy     Strategy
	MaxSteps     int  // horizon (0 = 2_000_000)
	YieldAtomics bool // atomics loads are scheduling points too
	SelectLast   bool // the default pick among several ready select cases is the last one in source order (not the first)
	Trace        bool
	Epoch        time.Time
}

// ---------------------------------------------------------------------------------------------

type opKind int

const (
	opNone opKind = iota
	opYield
	opChan
	opLock
	opRLock
	opWait
	opQuiesce
	opStart
)

type chanOp struct {
	key    uintptr
	cap    int
	isSend bool
	nilCh  bool
	ready  func() bool       // native readiness for buffered/closed
	do     func()            // native non-blocking execution
	give   func() any        // sender side of a rendezvous
	take   func(any, bool)   // receiver side of a rendezvous
	pos    string
}

type pending struct {
	kind       opKind
	ops        []*chanOp
	hasDefault bool
	enabled    func() bool // for lock/wait kinds
	fired      int         // select: index of case completed (by partner or self); -1 default
	completed  bool
	pos        string
}

// G is a managed goroutine.
type G struct {
	id    int
	name  string
	wake  chan struct{}
	pend  *pending
	done  bool
	sched *Sched
	steps int
}

type timer struct {
	when   time.Time
	seq    int
	c      chan time.Time
	fn     func()
	period time.Duration
	active bool
	name   string
	owner  string // name of the goroutine which armed it
}

// Sched is one execution.
type Sched struct {
	cfg     Config
	gs      []*G
	cur     *G
	killed  bool
	wg      sync.WaitGroup
	doneCh  chan struct{}
	res     Result
	closed  map[uintptr]bool
	keep    []any // keeps channels alive so that keys stay unique during the execution
	open    bool  // exploration zone
	now     time.Time
	timers  []*timer
	tseq    int
	finished bool
	nextID  int
	onKill  []func()
	values  map[string]any
}

var (
	active   *Sched
	activeMu sync.Mutex
)

// Active reports whether a managed execution is in progress.
func Active() bool { return active != nil }

func cur() *Sched { return active }

// Run executes body as managed goroutine 0 and returns when it has returned (or the execution
// failed); all other managed goroutines are then killed.
func Run(cfg Config, body func()) Result {
	if active != nil {
		panic("vsched: nested Run")
	}
	if cfg.MaxSteps == 0 {
		cfg.MaxSteps = 2000000
	}
	if cfg.Epoch.IsZero() {
		cfg.Epoch = time.Date(2026, 1, 1, 0, 0, 0, 0, time.UTC)
	}
	s := &Sched{cfg: cfg, doneCh: make(chan struct{}), closed: map[uintptr]bool{}, now: cfg.Epoch, values: map[string]any{}}
	activeMu.Lock()
	active = s
	activeMu.Unlock()
	g := s.newG("main")
	s.cur = g
	s.startG(g, func() {
		body()
		s.finish("ok", "")
	})
	g.wake <- struct{}{}
	<-s.doneCh
	// kill everything that is still parked
	s.killed = true
	for _, x := range s.gs {
		if !x.done {
			select {
			case x.wake <- struct{}{}:
			default:
			}
		}
	}
	s.wg.Wait()
	for _, f := range s.onKill {
		f()
	}
	activeMu.Lock()
	active = nil
	activeMu.Unlock()
	return s.res
}

func (s *Sched) newG(name string) *G {
	g := &G{id: s.nextID, name: name, wake: make(chan struct{}, 1), sched: s}
	s.nextID++
	s.gs = append(s.gs, g)
	return g
}

type killSignal struct{}

func (s *Sched) startG(g *G, fn func()) {
	s.wg.Add(1)
	g.pend = &pending{kind: opStart}
	go func() {
		defer s.wg.Done()
		defer func() {
			g.done = true
			if r := recover(); r != nil {
				if _, ok := r.(killSignal); ok {
					return
				}
				if s.killed || s.finished {
					return
				}
				s.finish("panic", fmt.Sprintf("goroutine %d (%s): %v\n%s", g.id, g.name, r, trimStack(debug.Stack())))
			}
		}()
		<-g.wake
		if s.killed {
			return
		}
		g.pend = nil
		fn()
		if s.killed || s.finished {
			return
		}
		// normal exit: hand over
		g.done = true
		s.scheduleFrom(g, true)
	}()
}

func trimStack(b []byte) string {
	lines := strings.Split(string(b), "\n")
	var out []string
	for i := 0; i < len(lines); i++ {
		l := lines[i]
		if strings.Contains(l, "zzverif/vsched") || strings.Contains(l, "runtime/debug") || strings.Contains(l, "runtime/panic") {
			if i+1 < len(lines) && strings.HasPrefix(lines[i+1], "\t") {
				i++
			}
			continue
		}
		out = append(out, l)
		if len(out) > 40 {
			break
		}
	}
	return strings.Join(out, "\n")
}

func (s *Sched) finish(status, detail string) {
	if s.finished {
		return
	}
	s.finished = true
	s.res.Status = status
	s.res.Detail = detail
	close(s.doneCh)
}

// die terminates the calling goroutine when the execution is over.
func (s *Sched) die() {
	runtime.Goexit()
}

func (s *Sched) dead() bool { return s.killed || s.finished }

// ---------------------------------------------------------------------------------------------
// enabledness

func (s *Sched) chanOpReady(g *G, op *chanOp) (bool, *G, int) {
	if op.nilCh {
		return false, nil, 0
	}
	if op.cap > 0 || s.closed[op.key] {
		return op.ready(), nil, 0
	}
	// unbuffered: look for a partner
	for _, o := range s.gs {
		if o == g || o.done || o.pend == nil || o.pend.kind != opChan || o.pend.completed {
			continue
		}
		for i, oo := range o.pend.ops {
			if oo.key == op.key && oo.isSend != op.isSend && !oo.nilCh {
				return true, o, i
			}
		}
	}
	return false, nil, 0
}

func (s *Sched) isEnabled(g *G) bool {
	p := g.pend
	if g.done || p == nil {
		return false
	}
	switch p.kind {
	case opYield, opStart:
		return true
	case opChan:
		if p.completed || p.hasDefault {
			return true
		}
		for _, op := range p.ops {
			if ok, _, _ := s.chanOpReady(g, op); ok {
				return true
			}
		}
		return false
	case opLock, opRLock, opWait:
		return p.enabled()
	case opQuiesce:
		return false
	}
	return false
}

// enabledList returns enabled goroutines in canonical order: the running one first (if enabled),
// then ascending id.
func (s *Sched) enabledList(from *G) []*G {
	var out []*G
	if from != nil && !from.done && s.isEnabled(from) {
		out = append(out, from)
	}
	for _, g := range s.gs {
		if g != from && s.isEnabled(g) {
			out = append(out, g)
		}
	}
	if len(out) == 0 {
		// nested waits for quiescence return innermost first: a goroutine which asked later (a harness
		// hook inside the code under test) resumes before the harness's main goroutine
		for i := len(s.gs) - 1; i >= 0; i-- {
			if g := s.gs[i]; !g.done && g.pend != nil && g.pend.kind == opQuiesce {
				out = append(out, g)
			}
		}
	}
	return out
}

func (s *Sched) choose(kind byte, n int, note string) int {
	if n <= 1 {
		return 0
	}
	pt := len(s.res.Choices)
	pick := 0
	if s.cfg.Strategy != nil {
		pick = s.cfg.Strategy.Choose(pt, kind, n)
	}
	if pick < 0 || pick >= n {
		s.finish("abort", fmt.Sprintf("REPLAY-DIVERGENCE: choice %d out of range %d at point %d (%c %s)", pick, n, pt, kind, note))
		pick = 0
	}
	s.res.Choices = append(s.res.Choices, Choice{Kind: kind, N: n, Pick: pick, Open: s.open, Note: note})
	return pick
}

// scheduleFrom is called by goroutine g (the running one) after it has published its pending op
// (or is exiting). It returns when g is chosen to run again; if g is exiting it returns at once
// after waking the successor.
func (s *Sched) scheduleFrom(g *G, exiting bool) {
	if s.dead() {
		if exiting {
			return
		}
		s.die()
	}
	s.res.Steps++
	if s.res.Steps > s.cfg.MaxSteps {
		s.finish("horizon", fmt.Sprintf("more than %d steps", s.cfg.MaxSteps))
		if exiting {
			return
		}
		s.die()
	}
	e := s.enabledList(g)
	if len(e) == 0 {
		s.finish("deadlock", s.describeBlocked())
		if exiting {
			return
		}
		s.die()
	}
	var note string
	if s.cfg.Trace || true {
		note = ""
	}
	pick := s.choose('g', len(e), note)
	if s.dead() {
		if exiting {
			return
		}
		s.die()
	}
	next := e[pick]
	if s.cfg.Trace {
		s.res.Trace = append(s.res.Trace, fmt.Sprintf("g%d(%s) %s", next.id, next.name, describePending(next.pend)))
	}
	s.cur = next
	if next == g {
		return
	}
	next.wake <- struct{}{}
	if exiting {
		return
	}
	<-g.wake
	if s.dead() {
		s.die()
	}
}

func describePending(p *pending) string {
	if p == nil {
		return "-"
	}
	switch p.kind {
	case opYield:
		return "yield " + p.pos
	case opStart:
		return "start"
	case opChan:
		var parts []string
		for _, o := range p.ops {
			d := "recv"
			if o.isSend {
				d = "send"
			}
			parts = append(parts, fmt.Sprintf("%s@%s", d, o.pos))
		}
		if p.hasDefault {
			parts = append(parts, "default")
		}
		return "chan[" + strings.Join(parts, ",") + "] " + p.pos
	case opLock:
		return "lock " + p.pos
	case opRLock:
		return "rlock " + p.pos
	case opWait:
		return "wait " + p.pos
	case opQuiesce:
		return "quiesce"
	}
	return "?"
}

func (s *Sched) describeBlocked() string {
	var sb strings.Builder
	for _, g := range s.gs {
		if g.done {
			continue
		}
		fmt.Fprintf(&sb, "g%d(%s): %s\n", g.id, g.name, describePending(g.pend))
	}
	return sb.String()
}

// block publishes p as the pending operation of the running goroutine, yields to the scheduler and
// executes the operation once chosen.
// OnPoint, when set by a harness, is told of every scheduling point (channel operation, select,
// lock, yield) a managed goroutine is about to reach, before the operation is published. The hook
// may itself block (Quiesce): the goroutine is then held in front of the operation. Not re-entered.
var OnPoint func(kind string)
var inOnPoint bool

func (s *Sched) block(p *pending) {
	if OnPoint != nil && !inOnPoint && p.kind != opQuiesce {
		inOnPoint = true
		OnPoint(describeKind(p))
		inOnPoint = false
	}
	g := s.cur
	g.pend = p
	p.fired = -2
	s.scheduleFrom(g, false)
	// we are running again
	if p.kind == opChan && !p.completed {
		s.execChan(g, p)
	}
	g.pend = nil
}

func (s *Sched) execChan(g *G, p *pending) {
	type cand struct {
		idx     int
		partner *G
		pidx    int
	}
	var ready []cand
	for i, op := range p.ops {
		if ok, partner, pidx := s.chanOpReady(g, op); ok {
			ready = append(ready, cand{i, partner, pidx})
		}
	}
	if len(ready) == 0 {
		if p.hasDefault {
			p.fired = -1
			p.completed = true
			return
		}
		s.finish("abort", "vsched internal: scheduled a blocked channel operation "+describePending(p))
		s.die()
	}
	if s.cfg.SelectLast {
		for i, j := 0, len(ready)-1; i < j; i, j = i+1, j-1 {
			ready[i], ready[j] = ready[j], ready[i]
		}
	}
	k := 0
	if len(ready) > 1 {
		k = s.choose('s', len(ready), p.pos)
		if s.dead() {
			s.die()
		}
	}
	c := ready[k]
	op := p.ops[c.idx]
	if c.partner == nil {
		op.do()
	} else {
		pp := c.partner.pend
		po := pp.ops[c.pidx]
		if op.isSend {
			po.take(op.give(), true)
		} else {
			op.take(po.give(), true)
		}
		pp.completed = true
		pp.fired = c.pidx
	}
	p.fired = c.idx
	p.completed = true
}

// ---------------------------------------------------------------------------------------------
// operations used by rewritten code

func chanKey(ch any) uintptr {
	v := reflect.ValueOf(ch)
	if !v.IsValid() || v.IsNil() {
		return 0
	}
	return v.Pointer()
}

func (s *Sched) track(ch any) { s.keep = append(s.keep, ch) }

func describeKind(p *pending) string {
	switch p.kind {
	case opChan:
		if len(p.ops) > 1 || p.hasDefault {
			return "select " + p.pos
		}
		return "channel operation " + p.pos
	case opYield:
		return "yield " + p.pos
	case opLock, opRLock:
		return "lock " + p.pos
	case opWait:
		return "wait " + p.pos
	}
	return "point"
}

// Yield is a plain scheduling point.
func Yield(pos string) {
	s := cur()
	if s == nil {
		return
	}
	if s.dead() {
		s.die()
	}
	s.block(&pending{kind: opYield, pos: pos})
}

// Go starts a managed goroutine.
func Go(pos string, fn func()) {
	s := cur()
	if s == nil {
		go fn()
		return
	}
	if s.dead() {
		s.die()
	}
	g := s.newG(pos)
	s.startG(g, fn)
	s.block(&pending{kind: opYield, pos: "go " + pos})
}

// SendOp is the typed handle for a send.
type SendOpT[T any] struct{ ch chan<- T }

func SendOp[T any](ch chan<- T) SendOpT[T] { return SendOpT[T]{ch} }

func (o SendOpT[T]) mk(v T, pos string) *chanOp {
	ch := o.ch
	return &chanOp{key: chanKey(ch), cap: cap(ch), isSend: true, nilCh: ch == nil, pos: pos,
		ready: func() bool { return len(ch) < cap(ch) || (cur() != nil && cur().closed[chanKey(ch)]) },
		do:    func() { ch <- v },
		give:  func() any { return v },
	}
}

// Do performs `ch <- v`.
func (o SendOpT[T]) Do(v T) {
	s := cur()
	if s == nil {
		o.ch <- v
		return
	}
	if s.dead() {
		s.die()
	}
	op := o.mk(v, "")
	s.track(o.ch)
	s.block(&pending{kind: opChan, ops: []*chanOp{op}})
}

// SelCase is one case of a select.
type SelCase interface {
	ephemeralKey() uintptr
	op() *chanOp
	native() reflect.SelectCase
	setNative(v reflect.Value, ok bool)
}

type sendCase[T any] struct {
	o SendOpT[T]
	v T
}

func (c *sendCase[T]) op() *chanOp { return c.o.mk(c.v, "") }
func (c *sendCase[T]) ephemeralKey() uintptr { return 0 }
func (c *sendCase[T]) native() reflect.SelectCase {
	return reflect.SelectCase{Dir: reflect.SelectSend, Chan: reflect.ValueOf(c.o.ch), Send: reflect.ValueOf(&c.v).Elem()}
}
func (c *sendCase[T]) setNative(reflect.Value, bool) {}

// Case builds the send case `case ch <- v:`.
func (o SendOpT[T]) Case(v T) SelCase { return &sendCase[T]{o, v} }

// RCase is the receive case `case v, ok := <-ch:`.
type RCase[T any] struct {
	ch        <-chan T
	V         T
	OK        bool
	ephemeral bool
}

func RecvCase[T any](ch <-chan T) *RCase[T] { return &RCase[T]{ch: ch} }

// RecvCaseEphemeral is RecvCase for a channel that nothing else references (time.After in a case
// expression): when the select takes another case the timer behind it is disarmed.
func RecvCaseEphemeral[T any](ch <-chan T) *RCase[T] { return &RCase[T]{ch: ch, ephemeral: true} }

func (c *RCase[T]) ephemeralKey() uintptr {
	if c.ephemeral {
		return chanKey(c.ch)
	}
	return 0
}

func (c *RCase[T]) op() *chanOp {
	ch := c.ch
	return &chanOp{key: chanKey(ch), cap: cap(ch), nilCh: ch == nil,
		ready: func() bool { return len(ch) > 0 || (cur() != nil && cur().closed[chanKey(ch)]) },
		do:    func() { c.V, c.OK = <-ch },
		take: func(x any, ok bool) {
			if x != nil {
				c.V, _ = x.(T)
			}
			c.OK = ok
		},
	}
}
func (c *RCase[T]) native() reflect.SelectCase {
	return reflect.SelectCase{Dir: reflect.SelectRecv, Chan: reflect.ValueOf(c.ch)}
}
func (c *RCase[T]) setNative(v reflect.Value, ok bool) {
	if ok && v.IsValid() {
		c.V, _ = v.Interface().(T)
	}
	c.OK = ok
}

// Recv2 performs `v, ok := <-ch`.
func Recv2[T any](ch <-chan T) (T, bool) {
	s := cur()
	if s == nil {
		v, ok := <-ch
		return v, ok
	}
	if s.dead() {
		s.die()
	}
	c := RecvCase(ch)
	s.track(ch)
	s.block(&pending{kind: opChan, ops: []*chanOp{c.op()}})
	return c.V, c.OK
}

// Recv performs `<-ch`.
func Recv[T any](ch <-chan T) T {
	v, _ := Recv2(ch)
	return v
}

// OnTrySend, when set, is asked at every non-blocking send (a select whose branches are sends plus a
// default) of a managed goroutine; returning true makes the send find its queue full (default branch).
var OnTrySend func(pos string) bool

// Select performs a select statement; returns the index of the case taken, -1 for default.
func Select(pos string, hasDefault bool, cases ...SelCase) int {
	s := cur()
	if s == nil {
		sc := make([]reflect.SelectCase, 0, len(cases)+1)
		for _, c := range cases {
			sc = append(sc, c.native())
		}
		if hasDefault {
			sc = append(sc, reflect.SelectCase{Dir: reflect.SelectDefault})
		}
		i, v, ok := reflect.Select(sc)
		if i == len(cases) {
			return -1
		}
		cases[i].setNative(v, ok)
		return i
	}
	if s.dead() {
		s.die()
	}
	p := &pending{kind: opChan, hasDefault: hasDefault, pos: pos}
	allSends := len(cases) > 0
	for _, c := range cases {
		o := c.op()
		allSends = allSends && o.isSend
		p.ops = append(p.ops, o)
	}
	// Environment answer "the queue is full": a non-blocking send (select with a default branch whose other
	// branches are all sends) may find its channel full whenever the consumer is slow. OnTrySend decides.
	if hasDefault && allSends && OnTrySend != nil && OnTrySend(pos) {
		return -1
	}
	s.block(p)
	for i, c := range cases {
		if k := c.ephemeralKey(); k != 0 && i != p.fired {
			for _, t := range s.timers {
				if t.c != nil && chanKey(t.c) == k {
					t.active = false
				}
			}
			s.gcTimers()
		}
	}
	return p.fired
}

// Close performs close(ch).
func Close[T any](ch chan T) {
	s := cur()
	if s == nil {
		close(ch)
		return
	}
	if s.dead() {
		s.die()
	}
	s.block(&pending{kind: opYield, pos: "close"})
	s.closed[chanKey(ch)] = true
	s.track(ch)
	close(ch)
}

// ---------------------------------------------------------------------------------------------
// locks and waits (used by vsync)

// BlockUntil parks the running goroutine until cond() holds (cond is evaluated by the scheduler).
func BlockUntil(kind string, pos string, cond func() bool) {
	s := cur()
	if s == nil {
		panic("vsched.BlockUntil outside Run")
	}
	if s.dead() {
		s.die()
	}
	k := opLock
	if kind == "wait" {
		k = opWait
	}
	s.block(&pending{kind: k, enabled: cond, pos: pos})
}

// ---------------------------------------------------------------------------------------------
// harness API

// Quiesce returns when no other managed goroutine can make progress. Timers do not fire.
func Quiesce() {
	s := cur()
	if s == nil {
		panic("vsched.Quiesce outside Run")
	}
	if s.dead() {
		s.die()
	}
	s.block(&pending{kind: opQuiesce})
}

// Choose is a harness-declared choice point with n alternatives.
func Choose(n int, note string) int {
	s := cur()
	if s == nil {
		return 0
	}
	return s.choose('c', n, note)
}

// Zone opens/closes the exploration zone: alternatives of choices recorded while closed are
// never explored.
func Zone(on bool) {
	if s := cur(); s != nil {
		s.open = on
	}
}

// Fail ends the execution with a harness-detected failure.
func Fail(status, detail string) {
	s := cur()
	if s == nil {
		panic(status + ": " + detail)
	}
	s.finish(status, detail)
	s.die()
}

// OnKill registers a function run after all goroutines of the execution are gone.
func OnKill(f func()) {
	if s := cur(); s != nil {
		s.onKill = append(s.onKill, f)
	}
}

// Value / SetValue: per-execution scratch storage for shims and harnesses.
func SetValue(k string, v any) {
	if s := cur(); s != nil {
		s.values[k] = v
	}
}
func Value(k string) any {
	if s := cur(); s != nil {
		return s.values[k]
	}
	return nil
}

// Steps returns the number of scheduling steps so far.
func Steps() int {
	if s := cur(); s != nil {
		return s.res.Steps
	}
	return 0
}

// NumGoroutines returns the number of live managed goroutines and a description of each.
func Goroutines() []string {
	s := cur()
	if s == nil {
		return nil
	}
	var out []string
	for _, g := range s.gs {
		if !g.done {
			out = append(out, fmt.Sprintf("g%d(%s): %s", g.id, g.name, describePending(g.pend)))
		}
	}
	return out
}

// ---------------------------------------------------------------------------------------------
// virtual time

// Now returns the virtual time and advances it by one millisecond, so that successive
// timestamps are distinct and ordered.
func Now() time.Time {
	s := cur()
	if s == nil {
		return time.Now()
	}
	s.now = s.now.Add(time.Millisecond)
	return s.now
}

// PeekNow returns the virtual time without advancing it.
func PeekNow() time.Time {
	s := cur()
	if s == nil {
		return time.Now()
	}
	return s.now
}

// TimerHandle is the scheduler side of a virtual timer.
type TimerHandle struct{ t *timer }

// NewTimer arms a virtual timer. Exactly one of c / fn is used.
func NewTimer(d time.Duration, period time.Duration, c chan time.Time, fn func(), name string) *TimerHandle {
	s := cur()
	if s == nil {
		panic("vsched.NewTimer outside Run")
	}
	s.tseq++
	t := &timer{when: s.now.Add(d), seq: s.tseq, c: c, fn: fn, period: period, active: true, name: name}
	if s.cur != nil {
		t.owner = s.cur.name
	}
	s.timers = append(s.timers, t)
	return &TimerHandle{t}
}

// Stop disarms; reports whether the timer was armed.
func (h *TimerHandle) Stop() bool {
	was := h.t.active
	h.t.active = false
	if s := cur(); s != nil {
		s.gcTimers()
	}
	// Go 1.23 semantics: no stale value remains readable after Stop
	if h.t.c != nil {
		select {
		case <-h.t.c:
		default:
		}
	}
	return was
}

// Reset re-arms.
func (h *TimerHandle) Reset(d time.Duration) bool {
	was := h.Stop()
	s := cur()
	if s == nil {
		return was
	}
	h.t.when = s.now.Add(d)
	s.tseq++
	h.t.seq = s.tseq
	h.t.active = true
	s.timers = append(s.timers, h.t)
	return was
}

func (s *Sched) gcTimers() {
	out := s.timers[:0]
	for _, t := range s.timers {
		if t.active {
			out = append(out, t)
		}
	}
	s.timers = out
}

func (s *Sched) earliest(limit time.Time) *timer {
	var best *timer
	for _, t := range s.timers {
		if !t.active || t.when.After(limit) {
			continue
		}
		if best == nil || t.when.Before(best.when) || (t.when.Equal(best.when) && t.seq < best.seq) {
			best = t
		}
	}
	return best
}

func (s *Sched) fire(t *timer) {
	if t.when.After(s.now) {
		s.now = t.when
	}
	if t.period > 0 {
		t.when = t.when.Add(t.period)
	} else {
		t.active = false
		s.gcTimers()
	}
	if t.fn != nil {
		Go("timer:"+t.name, t.fn)
		return
	}
	select {
	case t.c <- s.now:
	default:
	}
}

// Advance moves the virtual clock forward by d, firing due timers one at a time in deadline
// order, each followed by a quiescence. Must be called by the harness goroutine.
func Advance(d time.Duration) int {
	s := cur()
	if s == nil {
		panic("vsched.Advance outside Run")
	}
	target := s.now.Add(d)
	n := 0
	for {
		t := s.earliest(target)
		if t == nil {
			break
		}
		s.fire(t)
		n++
		Quiesce()
	}
	if target.After(s.now) {
		s.now = target
	}
	return n
}

// FireNext fires the earliest armed timer whose deadline is within horizon (without quiescing);
// reports whether one fired. Used by "clock" goroutines racing with other activity.
func FireNext(horizon time.Duration) bool {
	s := cur()
	if s == nil {
		return false
	}
	t := s.earliest(s.now.Add(horizon))
	if t == nil {
		return false
	}
	s.fire(t)
	return true
}

// TimerInfo describes one armed timer.
type TimerInfo struct {
	Name, Owner string
	Periodic    bool
	Pending     int // values fired into the timer's channel and not yet received
}

// Timers lists the armed timers in creation order.
func Timers() []TimerInfo {
	s := cur()
	if s == nil {
		return nil
	}
	ts := append([]*timer(nil), s.timers...)
	sort.Slice(ts, func(i, j int) bool { return ts[i].seq < ts[j].seq })
	var out []TimerInfo
	for _, t := range ts {
		if t.active {
			out = append(out, TimerInfo{t.name, t.owner, t.period > 0, len(t.c)})
		}
	}
	return out
}

// FireTimer fires the oldest armed timer accepted by match, whatever its deadline (the clock
// jumps forward to the deadline if it is later; timers with earlier deadlines stay armed: to the
// code under test this is an arbitrarily late timer). No quiescence. Reports whether one fired.
func FireTimer(match func(TimerInfo) bool) bool {
	s := cur()
	if s == nil {
		return false
	}
	var best *timer
	for _, t := range s.timers {
		if t.active && match(TimerInfo{t.name, t.owner, t.period > 0, len(t.c)}) && (best == nil || t.seq < best.seq) {
			best = t
		}
	}
	if best == nil {
		return false
	}
	s.fire(best)
	return true
}

// ArmedTimers lists armed timers (name and time to deadline), sorted by deadline.
func ArmedTimers() []string {
	s := cur()
	if s == nil {
		return nil
	}
	ts := append([]*timer(nil), s.timers...)
	sort.Slice(ts, func(i, j int) bool {
		if ts[i].when.Equal(ts[j].when) {
			return ts[i].seq < ts[j].seq
		}
		return ts[i].when.Before(ts[j].when)
	})
	var out []string
	for _, t := range ts {
		if t.active {
			out = append(out, fmt.Sprintf("%s+%s", t.name, t.when.Sub(s.now).Round(time.Millisecond)))
		}
	}
	return out
}

// YieldOnAtomicLoads reports the Config.YieldAtomics setting of the active execution.
func YieldOnAtomicLoads() bool {
	s := cur()
	return s != nil && s.cfg.YieldAtomics
}

// ---------------------------------------------------------------------------------------------
// exposed locals (inserted by verif-instr: see `expose` there)

type exposeKey struct {
	owner any
	name  string
}

// Expose registers a pointer to a function-local variable of a long-running goroutine.
func Expose(owner any, name string, ptr any) {
	if s := cur(); s != nil {
		s.values["expose:"+fmt.Sprintf("%p/%s", owner, name)] = ptr
	}
}

// Exposed returns the pointer registered last for (owner, name), nil if none.
func Exposed(owner any, name string) any {
	if s := cur(); s != nil {
		return s.values["expose:"+fmt.Sprintf("%p/%s", owner, name)]
	}
	return nil
}

// ---------------------------------------------------------------------------------------------
// lock discipline (inserted by verif-instr: see `guarded` there)

// LockHolder is implemented by the vsync mutexes.
type LockHolder interface {
	HeldByCurrent(write bool) bool
}

// CurrentID identifies the running managed goroutine (0 outside an execution).
func CurrentID() int {
	if s := cur(); s != nil && s.cur != nil {
		return s.cur.id + 1
	}
	return 0
}

// Touch records an access to data which must only be touched while lock is held by the running
// goroutine (for writing, exclusively). Violations end up in Result.Lockset, once per site.
func Touch(lock LockHolder, what string, write bool, site string) {
	s := cur()
	if s == nil || s.cur == nil || s.cur.name == "main" {
		return // free-running, or the harness goroutine inspecting state at quiescence
	}
	if lock.HeldByCurrent(write) {
		return
	}
	mode := "read"
	if write {
		mode = "write"
	}
	msg := what + " (" + mode + ") at " + site
	for _, x := range s.res.Lockset {
		if x == msg {
			return
		}
	}
	s.res.Lockset = append(s.res.Lockset, msg)
}

// PlainAccess records a non-atomic mention of a flag which must only be used through sync/atomic.
func PlainAccess(what string, site string) {
	s := cur()
	if s == nil || s.cur == nil || s.cur.name == "main" {
		return
	}
	msg := what + " (plain) at " + site
	for _, x := range s.res.Lockset {
		if x == msg {
			return
		}
	}
	s.res.Lockset = append(s.res.Lockset, msg)
}

// Report records a white-box protocol violation observed during the execution ("<key> | <what>"); it
// ends up in Result.Lockset next to the lock-discipline findings.
func Report(key, what string) {
	s := cur()
	if s == nil {
		return
	}
	msg := key + " | " + what
	for _, x := range s.res.Lockset {
		if x == msg {
			return
		}
	}
	s.res.Lockset = append(s.res.Lockset, msg)
}

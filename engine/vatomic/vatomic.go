// Package vatomic replaces sync/atomic in instrumented code: the real atomic operation preceded
// by a scheduling point (stores/CAS always; loads when the execution asks for it).
package vatomic

import (
	"sync/atomic"

	"github.com/tinode/chat/server/zzverif/vsched"
)

// OnOp, when set by a harness, is told of every atomic operation of instrumented code before it
// happens (a place to land an injected event between two plain statements).
var OnOp func(write bool)

func pt(write bool) {
	if OnOp != nil && vsched.Active() {
		OnOp(write)
	}
	if vsched.Active() && (write || vsched.YieldOnAtomicLoads()) {
		vsched.Yield("atomic")
	}
}

func LoadInt32(a *int32) int32   { pt(false); return atomic.LoadInt32(a) }
func LoadInt64(a *int64) int64   { pt(false); return atomic.LoadInt64(a) }
func LoadUint32(a *uint32) uint32 { pt(false); return atomic.LoadUint32(a) }
func LoadUint64(a *uint64) uint64 { pt(false); return atomic.LoadUint64(a) }
func StoreInt32(a *int32, v int32)   { pt(true); atomic.StoreInt32(a, v) }
func StoreInt64(a *int64, v int64)   { pt(true); atomic.StoreInt64(a, v) }
func StoreUint32(a *uint32, v uint32) { pt(true); atomic.StoreUint32(a, v) }
func StoreUint64(a *uint64, v uint64) { pt(true); atomic.StoreUint64(a, v) }
func AddInt32(a *int32, d int32) int32   { pt(true); return atomic.AddInt32(a, d) }
func AddInt64(a *int64, d int64) int64   { pt(true); return atomic.AddInt64(a, d) }
func AddUint32(a *uint32, d uint32) uint32 { pt(true); return atomic.AddUint32(a, d) }
func AddUint64(a *uint64, d uint64) uint64 { pt(true); return atomic.AddUint64(a, d) }
func SwapInt32(a *int32, v int32) int32 { pt(true); return atomic.SwapInt32(a, v) }
func SwapInt64(a *int64, v int64) int64 { pt(true); return atomic.SwapInt64(a, v) }
func CompareAndSwapInt32(a *int32, o, n int32) bool { pt(true); return atomic.CompareAndSwapInt32(a, o, n) }
func CompareAndSwapInt64(a *int64, o, n int64) bool { pt(true); return atomic.CompareAndSwapInt64(a, o, n) }
func CompareAndSwapUint32(a *uint32, o, n uint32) bool {
	pt(true)
	return atomic.CompareAndSwapUint32(a, o, n)
}
func CompareAndSwapUint64(a *uint64, o, n uint64) bool {
	pt(true)
	return atomic.CompareAndSwapUint64(a, o, n)
}

type (
	Int32  = atomic.Int32
	Int64  = atomic.Int64
	Uint32 = atomic.Uint32
	Uint64 = atomic.Uint64
	Bool   = atomic.Bool
	Value  = atomic.Value
)

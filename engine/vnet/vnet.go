// Package vnet replaces package net in instrumented code: everything is the real thing except
// DialTimeout, which the harness may take over (cluster links).
package vnet

import (
	"net"
	"time"
)

type (
	Listener    = net.Listener
	TCPListener = net.TCPListener
	TCPAddr     = net.TCPAddr
	IPNet       = net.IPNet
	IP          = net.IP
	Conn        = net.Conn
	Addr        = net.Addr
)

var (
	JoinHostPort   = net.JoinHostPort
	SplitHostPort  = net.SplitHostPort
	Listen         = net.Listen
	ListenTCP      = net.ListenTCP
	ParseCIDR      = net.ParseCIDR
	ParseIP        = net.ParseIP
	ResolveTCPAddr = net.ResolveTCPAddr
)

// Dial, when set, answers DialTimeout.
var Dial func(network, address string) (net.Conn, error)

func DialTimeout(network, address string, timeout time.Duration) (net.Conn, error) {
	if Dial != nil {
		return Dial(network, address)
	}
	return net.DialTimeout(network, address, timeout)
}

// FakeConn is a connection which carries only its address; the vrpc shim never reads or writes it.
type FakeConn struct {
	Address string
	Closed  bool
}

type fakeAddr string

func (a fakeAddr) Network() string { return "fake" }
func (a fakeAddr) String() string  { return string(a) }

func (c *FakeConn) Read([]byte) (int, error)         { return 0, net.ErrClosed }
func (c *FakeConn) Write(b []byte) (int, error)      { return len(b), nil }
func (c *FakeConn) Close() error                     { c.Closed = true; return nil }
func (c *FakeConn) LocalAddr() net.Addr              { return fakeAddr("local") }
func (c *FakeConn) RemoteAddr() net.Addr             { return fakeAddr(c.Address) }
func (c *FakeConn) SetDeadline(time.Time) error      { return nil }
func (c *FakeConn) SetReadDeadline(time.Time) error  { return nil }
func (c *FakeConn) SetWriteDeadline(time.Time) error { return nil }

// Package vsync replaces package sync in instrumented code. Under an active vsched execution
// every blocking operation is a scheduling point decided by the scheduler; otherwise the real
// primitives are used.
package vsync

import (
	"sort"
	"sync"

	"github.com/tinode/chat/server/zzverif/vsched"
)

type Locker = sync.Locker

// Mutex -----------------------------------------------------------------------------------------
type Mutex struct {
	mu     sync.Mutex
	locked bool
	holder int
}

// HeldByCurrent reports whether the running managed goroutine holds the mutex.
func (m *Mutex) HeldByCurrent(write bool) bool { return m.locked && m.holder == vsched.CurrentID() }

func (m *Mutex) Lock() {
	if !vsched.Active() {
		m.mu.Lock()
		return
	}
	vsched.BlockUntil("lock", "Mutex.Lock", func() bool { return !m.locked })
	m.locked = true
	m.holder = vsched.CurrentID()
}

func (m *Mutex) TryLock() bool {
	if !vsched.Active() {
		return m.mu.TryLock()
	}
	if m.locked {
		return false
	}
	m.locked = true
	m.holder = vsched.CurrentID()
	return true
}

func (m *Mutex) Unlock() {
	if !vsched.Active() {
		m.mu.Unlock()
		return
	}
	if !m.locked {
		panic("vsync: unlock of unlocked mutex")
	}
	m.locked = false
}

// RWMutex ---------------------------------------------------------------------------------------
type RWMutex struct {
	mu       sync.RWMutex
	writer   bool
	readers  int
	wholder  int
	rholders map[int]int
}

// HeldByCurrent reports whether the running managed goroutine holds the lock (exclusively when write).
func (m *RWMutex) HeldByCurrent(write bool) bool {
	id := vsched.CurrentID()
	if m.writer && m.wholder == id {
		return true
	}
	return !write && m.rholders[id] > 0
}

func (m *RWMutex) Lock() {
	if !vsched.Active() {
		m.mu.Lock()
		return
	}
	vsched.BlockUntil("lock", "RWMutex.Lock", func() bool { return !m.writer && m.readers == 0 })
	m.writer = true
	m.wholder = vsched.CurrentID()
}
func (m *RWMutex) Unlock() {
	if !vsched.Active() {
		m.mu.Unlock()
		return
	}
	if !m.writer {
		panic("vsync: unlock of unlocked RWMutex")
	}
	m.writer = false
}
func (m *RWMutex) RLock() {
	if !vsched.Active() {
		m.mu.RLock()
		return
	}
	vsched.BlockUntil("lock", "RWMutex.RLock", func() bool { return !m.writer })
	m.readers++
	if m.rholders == nil {
		m.rholders = map[int]int{}
	}
	m.rholders[vsched.CurrentID()]++
}
func (m *RWMutex) RUnlock() {
	if !vsched.Active() {
		m.mu.RUnlock()
		return
	}
	if m.readers <= 0 {
		panic("vsync: RUnlock of unlocked RWMutex")
	}
	m.readers--
	if id := vsched.CurrentID(); m.rholders[id] > 0 {
		m.rholders[id]--
	} else {
		for k, v := range m.rholders { // released by another goroutine than the one which took it
			if v > 0 {
				m.rholders[k]--
				break
			}
		}
	}
}
func (m *RWMutex) RLocker() Locker { return (*rlocker)(m) }

type rlocker RWMutex

func (r *rlocker) Lock()   { (*RWMutex)(r).RLock() }
func (r *rlocker) Unlock() { (*RWMutex)(r).RUnlock() }

// WaitGroup -------------------------------------------------------------------------------------
type WaitGroup struct {
	wg sync.WaitGroup
	n  int
}

func (w *WaitGroup) Add(d int) {
	if !vsched.Active() {
		w.wg.Add(d)
		return
	}
	w.n += d
	if w.n < 0 {
		panic("sync: negative WaitGroup counter")
	}
}
func (w *WaitGroup) Done() { w.Add(-1) }
func (w *WaitGroup) Wait() {
	if !vsched.Active() {
		w.wg.Wait()
		return
	}
	vsched.BlockUntil("wait", "WaitGroup.Wait", func() bool { return w.n == 0 })
}

// Counter exposes the managed counter (harness use).
func (w *WaitGroup) Counter() int { return w.n }

// Once ------------------------------------------------------------------------------------------
type Once struct {
	o    sync.Once
	done bool
	m    Mutex
}

func (o *Once) Do(f func()) {
	if !vsched.Active() {
		o.o.Do(f)
		return
	}
	o.m.Lock()
	defer o.m.Unlock()
	if !o.done {
		defer func() { o.done = true }()
		f()
	}
}

// Map -------------------------------------------------------------------------------------------
// Only one managed goroutine runs at a time, so a plain map is enough under the scheduler; the
// embedded sync.Map serves native use. An instance must not be shared across the two modes.
type Map struct {
	real sync.Map
	m    map[any]any
}

func (m *Map) managed() bool { return vsched.Active() }

func (m *Map) Load(k any) (any, bool) {
	if !m.managed() {
		return m.real.Load(k)
	}
	v, ok := m.m[k]
	return v, ok
}
func (m *Map) Store(k, v any) {
	if !m.managed() {
		m.real.Store(k, v)
		return
	}
	if m.m == nil {
		m.m = map[any]any{}
	}
	m.m[k] = v
}
func (m *Map) LoadOrStore(k, v any) (any, bool) {
	if !m.managed() {
		return m.real.LoadOrStore(k, v)
	}
	if old, ok := m.m[k]; ok {
		return old, true
	}
	m.Store(k, v)
	return v, false
}
func (m *Map) LoadAndDelete(k any) (any, bool) {
	if !m.managed() {
		return m.real.LoadAndDelete(k)
	}
	v, ok := m.m[k]
	delete(m.m, k)
	return v, ok
}
// OnMapDelete, when set by a harness, sees every removal from a managed Map before it happens
// (used to assert what must hold about a value at the moment it is unregistered).
var OnMapDelete func(m *Map, k, old any)

func (m *Map) Delete(k any) {
	if !m.managed() {
		m.real.Delete(k)
		return
	}
	if old, ok := m.m[k]; ok && OnMapDelete != nil {
		OnMapDelete(m, k, old)
	}
	delete(m.m, k)
}
func (m *Map) Swap(k, v any) (any, bool) {
	if !m.managed() {
		return m.real.Swap(k, v)
	}
	old, ok := m.m[k]
	m.Store(k, v)
	return old, ok
}
func (m *Map) CompareAndSwap(k, old, nw any) bool {
	if !m.managed() {
		return m.real.CompareAndSwap(k, old, nw)
	}
	if cur, ok := m.m[k]; ok && cur == old {
		m.m[k] = nw
		return true
	}
	return false
}
func (m *Map) Range(f func(k, v any) bool) {
	if !m.managed() {
		m.real.Range(f)
		return
	}
	for k, v := range vsched.SortedMap(m.m) {
		if !f(k, v) {
			return
		}
	}
}

// Keys returns the sorted string keys (harness use).
func (m *Map) Keys() []string {
	var out []string
	m.Range(func(k, _ any) bool {
		if s, ok := k.(string); ok {
			out = append(out, s)
		}
		return true
	})
	sort.Strings(out)
	return out
}

// Package vbcrypt replaces golang.org/x/crypto/bcrypt in instrumented builds of auth/basic: the
// real algorithm at the minimal cost, so that explored histories may contain many logins.
package vbcrypt

import "golang.org/x/crypto/bcrypt"

const (
	MinCost     = bcrypt.MinCost
	MaxCost     = bcrypt.MaxCost
	DefaultCost = bcrypt.MinCost
)

var (
	ErrMismatchedHashAndPassword = bcrypt.ErrMismatchedHashAndPassword
	ErrHashTooShort              = bcrypt.ErrHashTooShort
	ErrPasswordTooLong           = bcrypt.ErrPasswordTooLong
)

func GenerateFromPassword(password []byte, cost int) ([]byte, error) {
	return bcrypt.GenerateFromPassword(password, bcrypt.MinCost)
}
func CompareHashAndPassword(hashedPassword, password []byte) error {
	return bcrypt.CompareHashAndPassword(hashedPassword, password)
}
func Cost(hashedPassword []byte) (int, error) { return bcrypt.Cost(hashedPassword) }

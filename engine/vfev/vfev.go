// Package vfev is the reporting side of the /verif harnesses: every harness test creates one
// Report, counts what it actually enumerated, records violations with a replayable description,
// and writes a partial result file that the ./check driver merges into /verif/evidence/<id>.json.
package vfev

import (
	"runtime/debug"
	"strings"
	"encoding/json"
	"fmt"
	"os"
	"path/filepath"
	"sort"
	"strconv"
	"sync"
	"time"
)

// Violation is one failing case. Key identifies the failure class + site (used to match
// known findings), Detail must be enough to replay it.
type Violation struct {
	Key    string `json:"key"`
	What   string `json:"what"`
	Detail any    `json:"detail,omitempty"`
}

// Report accumulates coverage for one part (scenario x shard) of a check.
type Report struct {
	mu sync.Mutex

	Property string `json:"property_id"`
	Part     string `json:"part"`
	Shard    int    `json:"shard"`
	Shards   int    `json:"shards"`
	Tier     string `json:"tier"`
	Seed     int64  `json:"seed"`

	Evaluations int64            `json:"evaluations"`
	Nontrivial  int64            `json:"distinct_nontrivial"`
	States      int64            `json:"states"`
	Transitions int64            `json:"transitions"`
	Traces      int64            `json:"traces_validated_against_impl"`
	Exhaustive  bool             `json:"exhaustive"`
	Caps        []string         `json:"caps_hit,omitempty"`
	Counters    map[string]int64 `json:"counters,omitempty"`
	Samples     []any            `json:"samples,omitempty"`
	Notes       []string         `json:"notes,omitempty"`
	Violations  []Violation      `json:"violations,omitempty"`
	// number of violations per key beyond the ones kept in Violations
	ViolationCount map[string]int64 `json:"violation_count,omitempty"`
	Outcomes       map[string]int64 `json:"outcomes,omitempty"`
	WallS          float64          `json:"wall_s"`
	Fatal          string           `json:"fatal,omitempty"`

	start    time.Time
	deadline time.Time
	seen     map[string]struct{}
}

// Env helpers.
func Tier() string {
	if t := os.Getenv("VERIF_TIER"); t == "thorough" {
		return t
	}
	return "quick"
}
func Thorough() bool { return Tier() == "thorough" }
func Seed() int64 {
	n, _ := strconv.ParseInt(os.Getenv("VERIF_SEED"), 10, 64)
	return n
}
func Shard() (int, int) {
	i, _ := strconv.Atoi(os.Getenv("VERIF_SHARD"))
	n, _ := strconv.Atoi(os.Getenv("VERIF_SHARDS"))
	if n <= 0 {
		n = 1
	}
	return i, n
}

// EnvInt reads an integer knob.
func EnvInt(name string, def int) int {
	if v, err := strconv.Atoi(os.Getenv(name)); err == nil {
		return v
	}
	return def
}

// Replay returns the path of a replay file to execute instead of exploring ("" if none).
func Replay() string { return os.Getenv("VERIF_REPLAY") }

// New creates a report for property/part.
func New(property, part string) *Report {
	i, n := Shard()
	r := &Report{Property: property, Part: part, Shard: i, Shards: n, Tier: Tier(), Seed: Seed(),
		Exhaustive: true, Counters: map[string]int64{}, ViolationCount: map[string]int64{},
		Outcomes: map[string]int64{}, start: time.Now(), seen: map[string]struct{}{}}
	if d := EnvInt("VERIF_DEADLINE_S", 0); d > 0 {
		r.deadline = r.start.Add(time.Duration(d) * time.Second)
	}
	return r
}

// Expired reports whether the internal deadline has passed; the caller must stop exploring, and the
// report is marked non-exhaustive (never a failure).
func (r *Report) Expired() bool {
	if r.deadline.IsZero() || time.Now().Before(r.deadline) {
		return false
	}
	r.Cap("deadline")
	return true
}

func (r *Report) Cap(what string) {
	r.mu.Lock()
	defer r.mu.Unlock()
	r.Exhaustive = false
	for _, c := range r.Caps {
		if c == what {
			return
		}
	}
	r.Caps = append(r.Caps, what)
}

func (r *Report) Eval(n int64)            { r.mu.Lock(); r.Evaluations += n; r.mu.Unlock() }
func (r *Report) Count(k string, n int64) { r.mu.Lock(); r.Counters[k] += n; r.mu.Unlock() }
func (r *Report) Outcome(k string)        { r.mu.Lock(); r.Outcomes[k]++; r.mu.Unlock() }
func (r *Report) Note(s string)           { r.mu.Lock(); r.Notes = append(r.Notes, s); r.mu.Unlock() }

// Distinct counts key as one distinct non-trivial case if not seen before in this part.
func (r *Report) Distinct(key string) bool {
	r.mu.Lock()
	defer r.mu.Unlock()
	if _, ok := r.seen[key]; ok {
		return false
	}
	r.seen[key] = struct{}{}
	r.Nontrivial++
	return true
}

// DistinctN adds n cases that the caller knows to be pairwise distinct and non-trivial.
func (r *Report) DistinctN(n int64) { r.mu.Lock(); r.Nontrivial += n; r.mu.Unlock() }

// Sample keeps up to 6 written-out cases.
func (r *Report) Sample(x any) {
	r.mu.Lock()
	defer r.mu.Unlock()
	if len(r.Samples) < 6 {
		r.Samples = append(r.Samples, x)
	}
}

// Violation records a failing case; at most 5 per key are kept in full.
func (r *Report) Violation(key, what string, detail any) {
	r.mu.Lock()
	defer r.mu.Unlock()
	r.ViolationCount[key]++
	if r.ViolationCount[key] <= 5 {
		r.Violations = append(r.Violations, Violation{Key: key, What: what, Detail: detail})
	}
}

func (r *Report) NViolations() int64 {
	r.mu.Lock()
	defer r.mu.Unlock()
	var n int64
	for _, c := range r.ViolationCount {
		n += c
	}
	return n
}

// Finish writes the partial result.
func (r *Report) Finish() {
	r.mu.Lock()
	defer r.mu.Unlock()
	r.WallS = time.Since(r.start).Seconds()
	sort.Strings(r.Caps)
	dir := os.Getenv("VERIF_OUT")
	if dir == "" {
		dir = "."
	}
	b, err := json.MarshalIndent(r, "", " ")
	if err != nil {
		b = []byte(fmt.Sprintf(`{"property_id":%q,"part":%q,"fatal":%q}`, r.Property, r.Part, "marshal: "+err.Error()))
	}
	name := filepath.Join(dir, fmt.Sprintf("part-%s-%s-%d.json", r.Property, r.Part, r.Shard))
	if err := os.WriteFile(name, b, 0o644); err != nil {
		fmt.Fprintln(os.Stderr, "vfev: cannot write", name, err)
		os.Exit(3)
	}
}

// Fail marks the part as a machinery failure (exit 3 in the driver), not a violation.
func (r *Report) Fail(msg string) { r.mu.Lock(); r.Fatal = msg; r.mu.Unlock() }

// RecoverPanic turns a panic of the code under test into a violation (use as `defer r.RecoverPanic()`
// right after `defer r.Finish()`): the enumeration stops there, the run reports exit 1, not a
// machinery failure.
func (r *Report) RecoverPanic() {
	if p := recover(); p != nil {
		stack := string(debug.Stack())
		site := "unknown"
		for _, l := range strings.Split(stack, "\n") {
			l = strings.TrimSpace(l)
			if strings.Contains(l, "/server/") && strings.Contains(l, ".go:") && !strings.Contains(l, "zzverif") {
				f := l[strings.LastIndex(l, "/")+1:]
				if i := strings.Index(f, " "); i > 0 {
					f = f[:i]
				}
				site = f
				break
			}
		}
		r.Violation("panic:"+site, fmt.Sprintf("the code under test panicked: %v", p), stack)
	}
}

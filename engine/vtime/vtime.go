// Package vtime replaces package time in instrumented code: same types (aliases), virtual clock
// and virtual timers owned by vsched while an execution is active, the real thing otherwise.
package vtime

import (
	"fmt"
	"path/filepath"
	"runtime"
	"time"

	"github.com/tinode/chat/server/zzverif/vsched"
)

type (
	Time     = time.Time
	Duration = time.Duration
	Month    = time.Month
	Weekday  = time.Weekday
	Location = time.Location
)

const (
	Nanosecond  = time.Nanosecond
	Microsecond = time.Microsecond
	Millisecond = time.Millisecond
	Second      = time.Second
	Minute      = time.Minute
	Hour        = time.Hour

	RFC3339     = time.RFC3339
	RFC3339Nano = time.RFC3339Nano
	RFC1123     = time.RFC1123
	RFC822      = time.RFC822
	Kitchen     = time.Kitchen
	January     = time.January
)

var (
	UTC   = time.UTC
	Local = time.Local
)

func Unix(sec, nsec int64) Time                                 { return time.Unix(sec, nsec) }
func UnixMilli(ms int64) Time                                   { return time.UnixMilli(ms) }
func Date(y int, m Month, d, h, mi, s, ns int, l *Location) Time { return time.Date(y, m, d, h, mi, s, ns, l) }
func Parse(layout, value string) (Time, error)                  { return time.Parse(layout, value) }
func ParseDuration(s string) (Duration, error)                  { return time.ParseDuration(s) }

func Now() Time {
	if vsched.Active() {
		return vsched.Now()
	}
	return time.Now()
}
func Since(t Time) Duration {
	if vsched.Active() {
		return vsched.PeekNow().Sub(t)
	}
	return time.Since(t)
}
func Until(t Time) Duration {
	if vsched.Active() {
		return t.Sub(vsched.PeekNow())
	}
	return time.Until(t)
}

// Timer mirrors time.Timer.
type Timer struct {
	C    <-chan Time
	h    *vsched.TimerHandle
	real *time.Timer
}

func NewTimer(d Duration) *Timer {
	if !vsched.Active() {
		rt := time.NewTimer(d)
		return &Timer{C: rt.C, real: rt}
	}
	c := make(chan Time, 1)
	return &Timer{C: c, h: vsched.NewTimer(d, 0, c, nil, "timer@"+site())}
}

// site names the creation site of a timer (file:line of the caller in instrumented code).
func site() string {
	if _, file, line, ok := runtime.Caller(2); ok {
		return fmt.Sprintf("%s:%d", filepath.Base(file), line)
	}
	return "?"
}

func (t *Timer) Stop() bool {
	if t.real != nil {
		return t.real.Stop()
	}
	return t.h.Stop()
}

func (t *Timer) Reset(d Duration) bool {
	if t.real != nil {
		return t.real.Reset(d)
	}
	return t.h.Reset(d)
}

func AfterFunc(d Duration, f func()) *Timer {
	if !vsched.Active() {
		return &Timer{real: time.AfterFunc(d, f)}
	}
	return &Timer{h: vsched.NewTimer(d, 0, nil, f, "afterfunc")}
}

func After(d Duration) <-chan Time {
	if !vsched.Active() {
		return time.After(d)
	}
	c := make(chan Time, 1)
	vsched.NewTimer(d, 0, c, nil, "after")
	return c
}

func Sleep(d Duration) {
	if !vsched.Active() {
		time.Sleep(d)
		return
	}
	vsched.Recv(After(d))
}

// Ticker mirrors time.Ticker.
type Ticker struct {
	C    <-chan Time
	h    *vsched.TimerHandle
	real *time.Ticker
}

func NewTicker(d Duration) *Ticker {
	if !vsched.Active() {
		rt := time.NewTicker(d)
		return &Ticker{C: rt.C, real: rt}
	}
	c := make(chan Time, 1)
	return &Ticker{C: c, h: vsched.NewTimer(d, d, c, nil, "ticker@"+site())}
}

func (t *Ticker) Stop() {
	if t.real != nil {
		t.real.Stop()
		return
	}
	t.h.Stop()
}

func (t *Ticker) Reset(d Duration) {
	if t.real != nil {
		t.real.Reset(d)
		return
	}
	t.h.Reset(d)
}

func Tick(d Duration) <-chan Time {
	if !vsched.Active() {
		return time.Tick(d)
	}
	return NewTicker(d).C
}

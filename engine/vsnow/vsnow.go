// Package vsnow replaces github.com/tinode/snowflake in instrumented builds with a
// deterministic counter so that generated ids are identical across replays.
package vsnow

import "sync/atomic"

type SnowFlake struct{ worker uint32 }

var counter uint64

// Reset restarts the sequence (called by the harness at the start of every execution).
func Reset() { atomic.StoreUint64(&counter, 0) }

// ResetTo restarts the sequence at n.
func ResetTo(n uint64) { atomic.StoreUint64(&counter, n) }

func NewSnowFlake(workerID uint32) (*SnowFlake, error) { return &SnowFlake{worker: workerID}, nil }

func (sf *SnowFlake) Next() (uint64, error) {
	n := atomic.AddUint64(&counter, 1)
	// same layout idea as the original: time-ish high bits, worker, sequence
	return (uint64(1000)+n)<<22 | uint64(sf.worker&0x3FF)<<12 | (n & 0xFFF), nil
}

// verif-instr rewrites the concurrency, time and map-iteration constructs of selected packages of
// /repo so that they run under the deterministic scheduler shim (vsched). It never touches /repo:
// rewritten copies go to -out and map.json lists {original path: rewritten copy} for `go -overlay`.
//
// usage: verif-instr -repo /repo -out DIR spec...
//
//	spec = <repo-relative package dir>:<mode>   mode = all | time
//
// mode "time": only import swaps (time -> vtime, snowflake -> vsnow).
// mode "all" : import swaps (time, sync, sync/atomic) + go/send/recv/select/close/range rewriting.
package main

import (
	"bytes"
	"encoding/json"
	"flag"
	"fmt"
	"go/ast"
	"go/parser"
	"go/printer"
	"go/token"
	"go/types"
	"os"
	"path/filepath"
	"strconv"
	"strings"

	"golang.org/x/tools/go/ast/astutil"
	"golang.org/x/tools/go/packages"
)

const shimRoot = "github.com/tinode/chat/server/zzverif/"

var swapsTime = map[string]string{
	"time":                        shimRoot + "vtime",
	"github.com/tinode/snowflake": shimRoot + "vsnow",
	"golang.org/x/crypto/bcrypt":  shimRoot + "vbcrypt",
}
var swapsAll = map[string]string{
	"time":        shimRoot + "vtime",
	"sync":        shimRoot + "vsync",
	"sync/atomic": shimRoot + "vatomic",
	"expvar":      shimRoot + "vexpvar",
	"net/rpc":     shimRoot + "vrpc",
	"net":         shimRoot + "vnet",
}

// expose lists function-local variables which the harness must be able to read (they are part of
// the state of a long-running goroutine): "<func or (*Recv).method>" -> variable names. After the
// `name := ...` statement which declares one, `vsched.Expose(<receiver>, "name", &name)` is inserted.
// A listed function or variable which is not found is an error (the tree changed: fail loudly).
var expose = map[string]map[string][]string{
	"server": {
		"(*Cluster).run":         {"missed", "rehashSkipped"},
		"(*Cluster).electLeader": {"voteCount", "expectVotes"},
		"(*Topic).runLocal":      {"currentUA"},
	},
}

// guarded lists shared data which must only be touched while a lock of the same object is held:
// package dir -> type name -> field -> lock field. Before every statement which mentions such a field,
// `vsched.Touch(&x.<lock>, "Type.field", write, "file:line")` is inserted; under the scheduler the shim
// records a violation when the running goroutine does not hold the lock in the required mode.
// Functions in guardExempt build the object before it is shared.
var guarded = map[string]map[string]map[string]string{
	"server": {
		"Session":      {"subs": "subsLock"},
		"SessionStore": {"sessCache": "lock", "lru": "lock"},
	},
}
var guardExempt = map[string]bool{"(*SessionStore).NewSession": true, "NewSessionStore": true}

// atomicOnly lists flags which may only be passed by address to a sync/atomic function; any other
// mention gets a `vsched.PlainAccess("Type.field", "file:line")` in front of its statement.
var atomicOnly = map[string]map[string]map[string]bool{
	"server": {"Session": {"terminating": true}, "Topic": {"status": true}},
}

// atomicArgs collects the selector expressions which appear as &x.f arguments of atomic.* calls.
func atomicArgs(f *ast.File) map[ast.Expr]bool {
	ok := map[ast.Expr]bool{}
	ast.Inspect(f, func(n ast.Node) bool {
		c, isCall := n.(*ast.CallExpr)
		if !isCall {
			return true
		}
		if fs, isSel := c.Fun.(*ast.SelectorExpr); isSel {
			if id, isID := fs.X.(*ast.Ident); isID && id.Name == "atomic" {
				for _, a := range c.Args {
					if u, isU := a.(*ast.UnaryExpr); isU && u.Op == token.AND {
						ok[u.X] = true
					}
				}
			}
		}
		return true
	})
	return ok
}

type guardUse struct {
	x     ast.Expr
	what  string
	lock  string
	write bool
	pos   token.Pos
}

func (r *rewriter) guardSel(e ast.Expr, table map[string]map[string]string) (*guardUse, bool) {
	sel, ok := e.(*ast.SelectorExpr)
	if !ok {
		return nil, false
	}
	t := r.info.TypeOf(sel.X)
	if t == nil {
		return nil, false
	}
	if p, ok := t.(*types.Pointer); ok {
		t = p.Elem()
	}
	n, ok := t.(*types.Named)
	if !ok {
		return nil, false
	}
	fields := table[n.Obj().Name()]
	if fields == nil {
		return nil, false
	}
	lock, ok := fields[sel.Sel.Name]
	if !ok {
		return nil, false
	}
	return &guardUse{x: sel.X, what: n.Obj().Name() + "." + sel.Sel.Name, lock: lock, pos: sel.Pos()}, true
}

// guardedUses lists the guarded fields mentioned directly by st (not inside nested statement lists
// or function literals).
func (r *rewriter) guardedUses(st ast.Stmt, table map[string]map[string]string) []*guardUse {
	var out []*guardUse
	writes := map[ast.Expr]bool{}
	markWrite := func(e ast.Expr) {
		ast.Inspect(e, func(n ast.Node) bool {
			if x, ok := n.(ast.Expr); ok {
				writes[x] = true
			}
			return true
		})
	}
	switch s := st.(type) {
	case *ast.AssignStmt:
		for _, l := range s.Lhs {
			markWrite(l)
		}
	case *ast.IncDecStmt:
		markWrite(s.X)
	case *ast.ExprStmt:
		if c, ok := s.X.(*ast.CallExpr); ok {
			if id, ok := c.Fun.(*ast.Ident); ok && id.Name == "delete" && len(c.Args) > 0 {
				markWrite(c.Args[0])
			}
		}
	}
	first := true
	ast.Inspect(st, func(n ast.Node) bool {
		if first {
			first = false
			if _, ok := n.(*ast.BlockStmt); ok {
				return false // a bare block: its statements are handled as a list of their own
			}
			return true
		}
		switch x := n.(type) {
		case *ast.BlockStmt, *ast.CaseClause, *ast.CommClause, *ast.FuncLit:
			return false
		case ast.Expr:
			if u, ok := r.guardSel(x, table); ok {
				u.write = writes[x]
				out = append(out, u)
			}
			if r.atomicTable != nil && !r.atomicOK[x] {
				if u, ok := r.guardSelBool(x, r.atomicTable); ok {
					u.lock = "" // marks a plain access to an atomic-only flag
					out = append(out, u)
				}
			}
		}
		return true
	})
	return out
}

func (r *rewriter) guardSelBool(e ast.Expr, table map[string]map[string]bool) (*guardUse, bool) {
	t2 := map[string]map[string]string{}
	for tn, fs := range table {
		t2[tn] = map[string]string{}
		for f := range fs {
			t2[tn][f] = "-"
		}
	}
	return r.guardSel(e, t2)
}

func (r *rewriter) guardList(list []ast.Stmt, table map[string]map[string]string) []ast.Stmt {
	var out []ast.Stmt
	for _, st := range list {
		seen := map[string]bool{}
		for _, u := range r.guardedUses(st, table) {
			k := fmt.Sprint(u.what, u.write)
			if seen[k] {
				continue
			}
			seen[k] = true
			p := r.fset.Position(u.pos)
			if u.lock == "" {
				out = append(out, &ast.ExprStmt{X: r.call("PlainAccess",
					&ast.BasicLit{Kind: token.STRING, Value: strconv.Quote(u.what)},
					&ast.BasicLit{Kind: token.STRING, Value: strconv.Quote(fmt.Sprintf("%s:%d", filepath.Base(p.Filename), p.Line))})})
				continue
			}
			w := "false"
			if u.write {
				w = "true"
			}
			out = append(out, &ast.ExprStmt{X: r.call("Touch",
				&ast.UnaryExpr{Op: token.AND, X: &ast.SelectorExpr{X: u.x, Sel: ast.NewIdent(u.lock)}},
				&ast.BasicLit{Kind: token.STRING, Value: strconv.Quote(u.what)},
				ast.NewIdent(w),
				&ast.BasicLit{Kind: token.STRING, Value: strconv.Quote(fmt.Sprintf("%s:%d", filepath.Base(p.Filename), p.Line))})})
		}
		r.guardNested(st, table)
		out = append(out, st)
	}
	return out
}

func (r *rewriter) guardNested(st ast.Stmt, table map[string]map[string]string) {
	switch s := st.(type) {
	case *ast.BlockStmt:
		s.List = r.guardList(s.List, table)
	case *ast.IfStmt:
		r.guardNested(s.Body, table)
		if s.Else != nil {
			r.guardNested(s.Else, table)
		}
	case *ast.ForStmt:
		r.guardNested(s.Body, table)
	case *ast.RangeStmt:
		r.guardNested(s.Body, table)
	case *ast.SwitchStmt:
		r.guardNested(s.Body, table)
	case *ast.TypeSwitchStmt:
		r.guardNested(s.Body, table)
	case *ast.SelectStmt:
		r.guardNested(s.Body, table)
	case *ast.CaseClause:
		s.Body = r.guardList(s.Body, table)
	case *ast.CommClause:
		s.Body = r.guardList(s.Body, table)
	case *ast.LabeledStmt:
		r.guardNested(s.Stmt, table)
	}
	if b, ok := st.(*ast.BlockStmt); ok {
		// switch / select bodies hold clauses, which guardList passed through unchanged: descend
		for _, c := range b.List {
			switch c.(type) {
			case *ast.CaseClause, *ast.CommClause:
				r.guardNested(c, table)
			}
		}
	}
}

// guardPass inserts the Touch calls into every function body of the file.
func (r *rewriter) guardPass(f *ast.File, table map[string]map[string]string) {
	if table == nil {
		return
	}
	r.atomicOK = atomicArgs(f)
	ast.Inspect(f, func(n ast.Node) bool {
		switch x := n.(type) {
		case *ast.FuncDecl:
			if x.Body == nil {
				return false
			}
			if key, _ := funcKey(x); guardExempt[key] {
				return false
			}
			x.Body.List = r.guardList(x.Body.List, table)
		case *ast.FuncLit:
			x.Body.List = r.guardList(x.Body.List, table)
		}
		return true
	})
}

func funcKey(fn *ast.FuncDecl) (key, recv string) {
	key = fn.Name.Name
	if fn.Recv != nil && len(fn.Recv.List) == 1 {
		t := fn.Recv.List[0].Type
		star := ""
		if st, ok := t.(*ast.StarExpr); ok {
			star, t = "*", st.X
		}
		if id, ok := t.(*ast.Ident); ok {
			key = "(" + star + id.Name + ")." + key
		}
		if len(fn.Recv.List[0].Names) == 1 {
			recv = fn.Recv.List[0].Names[0].Name
		}
	}
	return
}

// exposeLocals performs the insertion for one file; found is updated with "func/var" entries.
func (r *rewriter) exposeLocals(f *ast.File, want map[string][]string, found map[string]bool) {
	for _, d := range f.Decls {
		fn, ok := d.(*ast.FuncDecl)
		if !ok || fn.Body == nil {
			continue
		}
		key, recv := funcKey(fn)
		names := want[key]
		if len(names) == 0 || recv == "" {
			continue
		}
		var out []ast.Stmt
		for _, st := range fn.Body.List {
			out = append(out, st)
			var id *ast.Ident
			if as, ok := st.(*ast.AssignStmt); ok && as.Tok == token.DEFINE && len(as.Lhs) == 1 {
				id, _ = as.Lhs[0].(*ast.Ident)
			} else if ds, ok := st.(*ast.DeclStmt); ok {
				// var name T
				if gd, ok := ds.Decl.(*ast.GenDecl); ok && gd.Tok == token.VAR && len(gd.Specs) == 1 {
					if vs, ok := gd.Specs[0].(*ast.ValueSpec); ok && len(vs.Names) == 1 {
						id = vs.Names[0]
					}
				}
			}
			if id == nil {
				continue
			}
			for _, n := range names {
				if n == id.Name {
					found[key+"/"+n] = true
					out = append(out, &ast.ExprStmt{X: r.call("Expose", ast.NewIdent(recv),
						&ast.BasicLit{Kind: token.STRING, Value: strconv.Quote(n)},
						&ast.UnaryExpr{Op: token.AND, X: ast.NewIdent(n)})})
				}
			}
		}
		fn.Body.List = out
	}
}

func main() {
	repo := flag.String("repo", "/repo", "repository root")
	out := flag.String("out", "", "output directory")
	flag.Parse()
	if *out == "" || flag.NArg() == 0 {
		fmt.Fprintln(os.Stderr, "usage: verif-instr -repo R -out D pkg:mode...")
		os.Exit(2)
	}
	mapping := map[string]string{}
	for _, spec := range flag.Args() {
		dir, mode, ok := strings.Cut(spec, ":")
		if !ok {
			mode = "all"
		}
		var err error
		switch mode {
		case "time":
			err = instrTimeOnly(*repo, dir, *out, mapping)
		case "all":
			err = instrAll(*repo, dir, *out, mapping)
		default:
			err = fmt.Errorf("unknown mode %q", mode)
		}
		if err != nil {
			fmt.Fprintln(os.Stderr, "verif-instr:", spec, err)
			os.Exit(1)
		}
	}
	b, _ := json.MarshalIndent(mapping, "", " ")
	if err := os.WriteFile(filepath.Join(*out, "map.json"), b, 0o644); err != nil {
		fmt.Fprintln(os.Stderr, err)
		os.Exit(1)
	}
}

func outName(out, dir, file string) string {
	return filepath.Join(out, strings.ReplaceAll(dir, "/", "_")+"__"+filepath.Base(file))
}

func swapImports(f *ast.File, swaps map[string]string) bool {
	changed := false
	for _, imp := range f.Imports {
		p, _ := strconv.Unquote(imp.Path.Value)
		if np, ok := swaps[p]; ok {
			if imp.Name == nil {
				base := p[strings.LastIndex(p, "/")+1:]
				imp.Name = ast.NewIdent(base)
			}
			imp.Path.Value = strconv.Quote(np)
			changed = true
		}
	}
	return changed
}

func writeFile(fset *token.FileSet, f *ast.File, orig, dst string) error {
	var buf bytes.Buffer
	cfg := printer.Config{Mode: printer.UseSpaces | printer.TabIndent | printer.SourcePos, Tabwidth: 8}
	if err := cfg.Fprint(&buf, fset, f); err != nil {
		return err
	}
	return os.WriteFile(dst, buf.Bytes(), 0o644)
}

func instrTimeOnly(repo, dir, out string, mapping map[string]string) error {
	ents, err := os.ReadDir(filepath.Join(repo, dir))
	if err != nil {
		return err
	}
	for _, e := range ents {
		n := e.Name()
		if e.IsDir() || !strings.HasSuffix(n, ".go") || strings.HasSuffix(n, "_test.go") {
			continue
		}
		path := filepath.Join(repo, dir, n)
		fset := token.NewFileSet()
		f, err := parser.ParseFile(fset, path, nil, parser.ParseComments)
		if err != nil {
			return err
		}
		if !swapImports(f, swapsTime) {
			continue
		}
		dst := outName(out, dir, n)
		if err := writeFile(fset, f, path, dst); err != nil {
			return err
		}
		mapping[path] = dst
	}
	return nil
}

type rewriter struct {
	fset    *token.FileSet
	info    *types.Info
	counter int
	used    bool // vsched referenced
	skip    map[ast.Node]bool
	kind    map[ast.Node]string // decisions taken in pre-order from type info
	file    string
	atomicOK    map[ast.Expr]bool
	atomicTable map[string]map[string]bool
}

func (r *rewriter) sel(name string) ast.Expr {
	r.used = true
	return &ast.SelectorExpr{X: ast.NewIdent("vsched"), Sel: ast.NewIdent(name)}
}

func (r *rewriter) call(name string, args ...ast.Expr) *ast.CallExpr {
	return &ast.CallExpr{Fun: r.sel(name), Args: args}
}

func (r *rewriter) fresh(prefix string) *ast.Ident {
	r.counter++
	return ast.NewIdent(fmt.Sprintf("_vf%s%d", prefix, r.counter))
}

func (r *rewriter) pos(n ast.Node) ast.Expr {
	p := r.fset.Position(n.Pos())
	return &ast.BasicLit{Kind: token.STRING, Value: strconv.Quote(fmt.Sprintf("%s:%d", filepath.Base(p.Filename), p.Line))}
}

func isChan(t types.Type) bool {
	if t == nil {
		return false
	}
	_, ok := t.Underlying().(*types.Chan)
	return ok
}
func isMap(t types.Type) bool {
	if t == nil {
		return false
	}
	_, ok := t.Underlying().(*types.Map)
	return ok
}

func (r *rewriter) pre(c *astutil.Cursor) bool {
	switch n := c.Node().(type) {
	case *ast.SelectStmt:
		for _, cl := range n.Body.List {
			cc := cl.(*ast.CommClause)
			switch s := cc.Comm.(type) {
			case *ast.SendStmt:
				r.skip[s] = true
			case *ast.ExprStmt:
				r.skip[unparen(s.X)] = true
			case *ast.AssignStmt:
				r.skip[unparen(s.Rhs[0])] = true
				r.skip[s] = true
			}
		}
	case *ast.RangeStmt:
		t := r.info.TypeOf(n.X)
		if isChan(t) {
			r.kind[n] = "chan"
		} else if isMap(t) && (n.Key != nil || n.Value != nil) {
			r.kind[n] = "map"
		}
	case *ast.AssignStmt:
		// v, ok := <-ch
		if len(n.Lhs) == 2 && len(n.Rhs) == 1 {
			if u, ok := unparen(n.Rhs[0]).(*ast.UnaryExpr); ok && u.Op == token.ARROW && !r.skip[n] {
				r.kind[u] = "recv2"
			}
		}
	case *ast.ValueSpec:
		if len(n.Names) == 2 && len(n.Values) == 1 {
			if u, ok := unparen(n.Values[0]).(*ast.UnaryExpr); ok && u.Op == token.ARROW {
				r.kind[u] = "recv2"
			}
		}
	case *ast.GoStmt:
		// decide per argument whether it can be hoisted into a temporary
		for _, a := range n.Call.Args {
			tv, ok := r.info.Types[a]
			if ok && (tv.Value != nil || tv.IsNil()) {
				r.kind[a] = "inline"
			}
		}
		if n.Call.Ellipsis.IsValid() {
			r.kind[n] = "variadic"
		}
	case *ast.CallExpr:
		if id, ok := n.Fun.(*ast.Ident); ok && id.Name == "close" && len(n.Args) == 1 {
			if obj := r.info.Uses[id]; obj != nil {
				if _, isBuiltin := obj.(*types.Builtin); isBuiltin {
					r.kind[n] = "close"
				}
			}
		}
	}
	return true
}

func unparen(e ast.Expr) ast.Expr {
	for {
		p, ok := e.(*ast.ParenExpr)
		if !ok {
			return e
		}
		e = p.X
	}
}

func (r *rewriter) post(c *astutil.Cursor) bool {
	switch n := c.Node().(type) {
	case *ast.SendStmt:
		if r.skip[n] {
			return true
		}
		// ch <- v   =>   vsched.SendOp(ch).Do(v)
		c.Replace(&ast.ExprStmt{X: &ast.CallExpr{
			Fun:  &ast.SelectorExpr{X: r.call("SendOp", n.Chan), Sel: ast.NewIdent("Do")},
			Args: []ast.Expr{n.Value}}})
	case *ast.UnaryExpr:
		if n.Op != token.ARROW || r.skip[n] {
			return true
		}
		if r.kind[n] == "recv2" {
			c.Replace(r.call("Recv2", n.X))
		} else {
			c.Replace(r.call("Recv", n.X))
		}
	case *ast.CallExpr:
		if r.kind[n] == "close" {
			c.Replace(r.call("Close", n.Args[0]))
		}
	case *ast.GoStmt:
		c.Replace(r.rewriteGo(n))
	case *ast.RangeStmt:
		switch r.kind[n] {
		case "map":
			n.X = r.call("SortedMap", n.X)
		case "chan":
			// for x := range ch { body }  =>  for { x, ok := vsched.Recv2(ch); if !ok { break }; body }
			okv := r.fresh("ok")
			var lhs ast.Expr = ast.NewIdent("_")
			tok := token.DEFINE
			if n.Key != nil {
				lhs = n.Key
				tok = n.Tok
			}
			var first ast.Stmt
			if tok == token.DEFINE {
				first = &ast.AssignStmt{Lhs: []ast.Expr{lhs, okv}, Tok: token.DEFINE, Rhs: []ast.Expr{r.call("Recv2", n.X)}}
			} else {
				// assignment form: declare ok separately
				first = &ast.BlockStmt{List: []ast.Stmt{}}
			}
			var pre []ast.Stmt
			if tok == token.DEFINE {
				pre = []ast.Stmt{first}
			} else {
				pre = []ast.Stmt{
					&ast.DeclStmt{Decl: &ast.GenDecl{Tok: token.VAR, Specs: []ast.Spec{&ast.ValueSpec{Names: []*ast.Ident{okv}, Type: ast.NewIdent("bool")}}}},
					&ast.AssignStmt{Lhs: []ast.Expr{lhs, okv}, Tok: token.ASSIGN, Rhs: []ast.Expr{r.call("Recv2", n.X)}},
				}
			}
			brk := &ast.IfStmt{Cond: &ast.UnaryExpr{Op: token.NOT, X: okv}, Body: &ast.BlockStmt{List: []ast.Stmt{&ast.BranchStmt{Tok: token.BREAK}}}}
			body := append(append(pre, brk), n.Body.List...)
			c.Replace(&ast.ForStmt{For: n.For, Body: &ast.BlockStmt{Lbrace: n.Body.Lbrace, List: body, Rbrace: n.Body.Rbrace}})
		}
	case *ast.SelectStmt:
		repl := r.rewriteSelect(n)
		if lbl, ok := c.Parent().(*ast.LabeledStmt); ok && lbl.Stmt == n {
			// label must stay on a breakable statement: move it onto the switch inside the block
			blk := repl.(*ast.BlockStmt)
			last := len(blk.List) - 1
			blk.List[last] = &ast.LabeledStmt{Label: lbl.Label, Colon: lbl.Colon, Stmt: blk.List[last]}
			// replace the labeled statement itself one level up: done by marking
			r.kind[lbl] = "unlabel"
			c.Replace(blk)
		} else {
			c.Replace(repl)
		}
	case *ast.LabeledStmt:
		if r.kind[n] == "unlabel" {
			c.Replace(n.Stmt)
		}
	}
	return true
}

func (r *rewriter) rewriteGo(n *ast.GoStmt) ast.Stmt {
	var stmts []ast.Stmt
	var lhs, rhs []ast.Expr
	args := make([]ast.Expr, len(n.Call.Args))
	for i, a := range n.Call.Args {
		if r.kind[a] == "inline" {
			args[i] = a
			continue
		}
		if _, isLit := a.(*ast.FuncLit); isLit {
			args[i] = a
			continue
		}
		id := r.fresh("ga")
		lhs = append(lhs, id)
		rhs = append(rhs, a)
		args[i] = id
	}
	if len(lhs) > 0 {
		stmts = append(stmts, &ast.AssignStmt{Lhs: lhs, Tok: token.DEFINE, Rhs: rhs})
	}
	call := &ast.CallExpr{Fun: n.Call.Fun, Args: args, Ellipsis: n.Call.Ellipsis}
	if len(args) == 0 {
		if fl, ok := n.Call.Fun.(*ast.FuncLit); ok {
			stmts = append(stmts, &ast.ExprStmt{X: r.call("Go", r.pos(n), fl)})
			return &ast.BlockStmt{List: stmts}
		}
	}
	fn := &ast.FuncLit{Type: &ast.FuncType{Params: &ast.FieldList{}}, Body: &ast.BlockStmt{List: []ast.Stmt{&ast.ExprStmt{X: call}}}}
	stmts = append(stmts, &ast.ExprStmt{X: r.call("Go", r.pos(n), fn)})
	return &ast.BlockStmt{List: stmts}
}

// recvCaseFn picks the constructor of a receive case: a channel made by time.After right in the
// case expression is unreachable once the select is over, so its timer can be dropped if not taken.
func recvCaseFn(ch ast.Expr) string {
	if c, ok := unparen(ch).(*ast.CallExpr); ok {
		if sel, ok := c.Fun.(*ast.SelectorExpr); ok {
			if id, ok := sel.X.(*ast.Ident); ok && id.Name == "time" && sel.Sel.Name == "After" {
				return "RecvCaseEphemeral"
			}
		}
	}
	return "RecvCase"
}

func (r *rewriter) rewriteSelect(n *ast.SelectStmt) ast.Stmt {
	var decls []ast.Stmt
	var caseExprs []ast.Expr
	var clauses []ast.Stmt
	hasDefault := "false"
	idx := 0
	for _, cl := range n.Body.List {
		cc := cl.(*ast.CommClause)
		if cc.Comm == nil {
			hasDefault = "true"
			clauses = append(clauses, &ast.CaseClause{Case: cc.Case, List: []ast.Expr{&ast.UnaryExpr{Op: token.SUB, X: &ast.BasicLit{Kind: token.INT, Value: "1"}}}, Colon: cc.Colon, Body: cc.Body})
			continue
		}
		cv := r.fresh("sc")
		var body []ast.Stmt
		switch s := cc.Comm.(type) {
		case *ast.SendStmt:
			decls = append(decls, &ast.AssignStmt{Lhs: []ast.Expr{cv}, Tok: token.DEFINE,
				Rhs: []ast.Expr{&ast.CallExpr{Fun: &ast.SelectorExpr{X: r.call("SendOp", s.Chan), Sel: ast.NewIdent("Case")}, Args: []ast.Expr{s.Value}}}})
		case *ast.ExprStmt:
			u := unparen(s.X).(*ast.UnaryExpr)
			decls = append(decls, &ast.AssignStmt{Lhs: []ast.Expr{cv}, Tok: token.DEFINE, Rhs: []ast.Expr{r.call(recvCaseFn(u.X), u.X)}})
		case *ast.AssignStmt:
			u := unparen(s.Rhs[0]).(*ast.UnaryExpr)
			decls = append(decls, &ast.AssignStmt{Lhs: []ast.Expr{cv}, Tok: token.DEFINE, Rhs: []ast.Expr{r.call(recvCaseFn(u.X), u.X)}})
			rhs := []ast.Expr{&ast.SelectorExpr{X: cv, Sel: ast.NewIdent("V")}}
			if len(s.Lhs) == 2 {
				rhs = append(rhs, &ast.SelectorExpr{X: cv, Sel: ast.NewIdent("OK")})
			}
			body = append(body, &ast.AssignStmt{Lhs: s.Lhs, Tok: s.Tok, Rhs: rhs})
			if s.Tok == token.DEFINE {
				// avoid "declared and not used" when the original ignores the variable via later shadowing: keep as is.
			}
		}
		caseExprs = append(caseExprs, cv)
		body = append(body, cc.Body...)
		clauses = append(clauses, &ast.CaseClause{Case: cc.Case, List: []ast.Expr{&ast.BasicLit{Kind: token.INT, Value: strconv.Itoa(idx)}}, Colon: cc.Colon, Body: body})
		idx++
	}
	// keep the statement "terminating" where the select was (a switch needs a default clause for that)
	clauses = append(clauses, &ast.CaseClause{Body: []ast.Stmt{&ast.ExprStmt{X: &ast.CallExpr{Fun: ast.NewIdent("panic"), Args: []ast.Expr{&ast.BasicLit{Kind: token.STRING, Value: `"vsched: unreachable select result"`}}}}}})
	args := append([]ast.Expr{r.pos(n), ast.NewIdent(hasDefault)}, caseExprs...)
	sw := &ast.SwitchStmt{Switch: n.Select, Tag: r.call("Select", args...), Body: &ast.BlockStmt{Lbrace: n.Body.Lbrace, List: clauses, Rbrace: n.Body.Rbrace}}
	return &ast.BlockStmt{List: append(decls, sw)}
}

func instrAll(repo, dir, out string, mapping map[string]string) error {
	cfg := &packages.Config{
		Mode: packages.NeedName | packages.NeedFiles | packages.NeedCompiledGoFiles | packages.NeedSyntax | packages.NeedTypes | packages.NeedTypesInfo | packages.NeedImports | packages.NeedDeps,
		Dir:  repo,
		Env:  append(os.Environ(), "GOFLAGS=-mod=mod", "GOPROXY=off", "GOSUMDB=off", "GOTOOLCHAIN=local"),
	}
	pkgs, err := packages.Load(cfg, "./"+dir)
	if err != nil {
		return err
	}
	if len(pkgs) != 1 {
		return fmt.Errorf("expected one package, got %d", len(pkgs))
	}
	exposed := map[string]bool{}
	p := pkgs[0]
	if len(p.Errors) > 0 {
		return fmt.Errorf("package has errors: %v", p.Errors[0])
	}
	for i, f := range p.Syntax {
		path := p.CompiledGoFiles[i]
		if strings.HasSuffix(path, "_test.go") {
			continue
		}
		r := &rewriter{fset: p.Fset, info: p.TypesInfo, skip: map[ast.Node]bool{}, kind: map[ast.Node]string{}, file: path}
		swapImports(f, swapsAll)
		r.atomicTable = atomicOnly[dir]
		r.guardPass(f, guarded[dir])
		astutil.Apply(f, r.pre, r.post)
		r.exposeLocals(f, expose[dir], exposed)
		if r.used {
			astutil.AddNamedImport(p.Fset, f, "vsched", shimRoot+"vsched")
		}
		dst := outName(out, dir, path)
		if err := writeFile(p.Fset, f, path, dst); err != nil {
			return err
		}
		mapping[path] = dst
	}
	for fn, names := range expose[dir] {
		for _, n := range names {
			if !exposed[fn+"/"+n] {
				return fmt.Errorf("expose: local variable %q of %s not found in %s", n, fn, dir)
			}
		}
	}
	return nil
}
